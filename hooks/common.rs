// Shared support for the hook modules (textually included by each hook with `include!`).
//
// Every harness body is written once against the `Src` trait:
//   * under `cfg(kani)` the inputs are `kani::any()` (symbolic) and `chk` is `assert!`;
//   * under `cfg(ruffle_rs_h263_rs_verif)` (native replay build, `cargo test`) the inputs are the bytes of a
//     Kani concrete-playback witness (env VERIF_WITNESS = comma separated bytes, consumed in draw order,
//     little endian) and `chk` records the failed label, so the *same* postcondition is re-evaluated on the
//     real code with the real SIMD intrinsics and no stubs.
// chk!(s, cond, "label"): the postcondition clause `label`. Kani: an assertion whose message is the label (it is the
// obligation name in the report); native replay: recorded in the RSrc.
#[cfg(kani)]
#[allow(unused_macros)]
macro_rules! chk {
    ($s:expr, $c:expr, $l:literal) => {{
        let _ = &$s;
        assert!($c, $l)
    }};
}
#[cfg(not(kani))]
#[allow(unused_macros)]
macro_rules! chk {
    ($s:expr, $c:expr, $l:literal) => {
        $s.chk($c, $l)
    };
}

#[allow(dead_code)]
pub trait Src {
    fn u8(&mut self) -> u8;
    fn assume(&mut self, c: bool);
    fn chk(&mut self, c: bool, label: &'static str);
    fn reach(&mut self);
    fn bool(&mut self) -> bool {
        self.u8() & 1 == 1
    }
    fn u16(&mut self) -> u16 {
        let lo = self.u8() as u16;
        let hi = self.u8() as u16;
        lo | (hi << 8)
    }
    fn i16(&mut self) -> i16 {
        self.u16() as i16
    }
    fn u32(&mut self) -> u32 {
        let lo = self.u16() as u32;
        let hi = self.u16() as u32;
        lo | (hi << 16)
    }
    fn arr<const N: usize>(&mut self) -> [u8; N] {
        let mut a = [0u8; N];
        let mut i = 0;
        while i < N {
            a[i] = self.u8();
            i += 1;
        }
        a
    }
}

#[cfg(kani)]
pub struct KSrc;

#[cfg(kani)]
impl Src for KSrc {
    fn u8(&mut self) -> u8 {
        kani::any()
    }
    fn assume(&mut self, c: bool) {
        kani::assume(c)
    }
    fn chk(&mut self, c: bool, _label: &'static str) {
        // harnesses use the chk! macro (Kani wants the assertion message as a literal); kept for completeness
        assert!(c)
    }
    fn arr<const N: usize>(&mut self) -> [u8; N] {
        kani::any()
    }
    fn reach(&mut self) {
        kani::cover!(true, "reach_end");
    }
}

#[cfg(not(kani))]
#[allow(dead_code)]
pub struct RSrc {
    pub data: Vec<u8>,
    pub pos: usize,
    pub rejected: bool,
    pub failed: Vec<&'static str>,
    pub reached: bool,
}

#[cfg(not(kani))]
#[allow(dead_code)]
impl RSrc {
    pub fn from_env() -> Self {
        let w = std::env::var("VERIF_WITNESS").unwrap_or_default();
        let data = w
            .split(',')
            .filter(|t| !t.trim().is_empty())
            .map(|t| t.trim().parse::<u8>().expect("VERIF_WITNESS: bytes"))
            .collect();
        RSrc { data, pos: 0, rejected: false, failed: Vec::new(), reached: false }
    }
    pub fn report(&self, harness: &str) {
        // one machine-readable line; the driver greps for it
        println!(
            "REPLAY harness={} consumed={} of={} rejected={} reached={} failed=[{}]",
            harness,
            self.pos,
            self.data.len(),
            self.rejected,
            self.reached,
            self.failed.join(";")
        );
    }
}

#[cfg(not(kani))]
impl Src for RSrc {
    fn u8(&mut self) -> u8 {
        let v = self.data.get(self.pos).copied().unwrap_or(0);
        self.pos += 1;
        v
    }
    fn assume(&mut self, c: bool) {
        if !c {
            // the candidate witness violates the precondition: stop before touching the real code
            self.rejected = true;
            panic!("VERIF_WITNESS_REJECTED");
        }
    }
    fn chk(&mut self, c: bool, label: &'static str) {
        if !c && !self.rejected {
            self.failed.push(label);
        }
    }
    fn reach(&mut self) {
        self.reached = true;
    }
}

// Native replay driver shared by the hooks. Two modes:
//   VERIF_WITNESS=<bytes>          replay one witness
//   VERIF_SEARCH=<n> VERIF_SEED=<s> VERIF_NBYTES=<k>   witness search: n pseudo-random byte strings (xorshift, several shapes of
//                                  randomness), stop at the first one on which the postcondition fails or the real code panics
#[cfg(not(kani))]
#[allow(dead_code)]
pub fn verif_replay_main(dispatch: fn(&str, &mut RSrc) -> bool) {
    let name = std::env::var("VERIF_HARNESS").unwrap_or_default();
    let search: usize = std::env::var("VERIF_SEARCH").ok().and_then(|v| v.parse().ok()).unwrap_or(0);
    if search == 0 {
        let mut r = RSrc::from_env();
        if !dispatch(&name, &mut r) {
            println!("REPLAY-UNKNOWN harness={}", name);
            return;
        }
        r.report(&name);
        return;
    }
    let seed: u64 = std::env::var("VERIF_SEED").ok().and_then(|v| v.parse().ok()).unwrap_or(1);
    let nbytes: usize = std::env::var("VERIF_NBYTES").ok().and_then(|v| v.parse().ok()).unwrap_or(64);
    // VERIF_ONLY=<text>: only failed clauses whose label contains <text> count (a property id: labels of harnesses that serve several
    // properties end in a tag like `[C04,C15]`; a panic of the real code always counts and is labelled `[C01]`)
    let only = std::env::var("VERIF_ONLY").unwrap_or_default();
    std::panic::set_hook(Box::new(|_| {}));
    let mut x: u64 = seed.wrapping_mul(0x9E3779B97F4A7C15) | 1;
    let mut next = move || {
        x ^= x << 13;
        x ^= x >> 7;
        x ^= x << 17;
        x
    };
    for k in 0..search {
        let mode = k % 4;
        let base = (next() % 256) as i64;
        let data: Vec<u8> = (0..nbytes)
            .map(|_| {
                let v = next();
                match mode {
                    0 => (v % 256) as u8,
                    1 => [0u8, 255, 1, 128, 127, 16, 240, 8][(v % 8) as usize],
                    2 => if v % 2 == 0 { 0 } else { ((v >> 8) % 256) as u8 },
                    _ => ((base + ((v >> 8) % 81) as i64 - 40).rem_euclid(256)) as u8,
                }
            })
            .collect();
        let d2 = data.clone();
        let nm = name.clone();
        let res = std::panic::catch_unwind(move || {
            let mut r = RSrc { data: d2, pos: 0, rejected: false, failed: Vec::new(), reached: false };
            let known = dispatch(&nm, &mut r);
            (known, r.rejected, r.failed.clone())
        });
        let verdict = match res {
            Ok((false, _, _)) => {
                println!("REPLAY-UNKNOWN harness={}", name);
                return;
            }
            Ok((true, _, failed)) if failed.iter().any(|l| l.contains(only.as_str())) => {
                Some(format!("postcondition failed: {}", failed.iter().filter(|l| l.contains(only.as_str())).cloned().collect::<Vec<_>>().join(";")))
            }
            Ok(_) => None,
            Err(e) => {
                let msg = e.downcast_ref::<String>().cloned().or_else(|| e.downcast_ref::<&str>().map(|s| s.to_string())).unwrap_or_default();
                // a panic of the real code is a failing input for whichever property is being checked (the call does not return what it promises)
                if msg.contains("VERIF_WITNESS_REJECTED") { None } else { Some(format!("panic [C01]: {}", msg)) }
            }
        };
        if let Some(v) = verdict {
            println!("REPLAY-FOUND harness={} try={} detail=[{}] witness={}", name, k, v, data.iter().map(|b| b.to_string()).collect::<Vec<_>>().join(","));
            return;
        }
    }
    println!("REPLAY-NOTFOUND harness={} tries={}", name, search);
}
