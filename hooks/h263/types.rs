// Hook module of h263/src/types.rs: Kani contracts of the loop-free integer kernels (complete over their domains).
// Properties: C12 (vector arithmetic), C11 (INTRADC), C03 (half-sample split), C01 (no overflow in these kernels).
#![allow(dead_code, unused_imports)]
use super::*;

include!("/verif/hooks/common.rs");
include!("/verif/spec/h263_tables.rs");

// HalfPel::into_lerp_parameters(v) == (floor(v/2), v odd)   for every i16
fn h_lerp_params<S: Src>(s: &mut S) {
    let v = s.i16();
    let (d, half) = HalfPel(v).into_lerp_parameters();
    let fl = (v as i32).div_euclid(2);
    chk!(s, d as i32 == fl, "types.HalfPel.into_lerp_parameters.post_delta: integer part == floor(v/2)");
    chk!(s, half == ((v as i32).rem_euclid(2) == 1), "types.HalfPel.into_lerp_parameters.post_half: half-sample flag == (v mod 2 == 1)");
    s.reach();
}

// HalfPel::invert / is_mv_within_range
fn h_invert_range<S: Src>(s: &mut S) {
    let v = s.i16();
    let r = s.i16();
    s.assume(v > -32704 && v < 32704 && r > i16::MIN);
    let inv = HalfPel(v).invert().0 as i32;
    let want = if v > 0 { v as i32 - 64 } else if v < 0 { v as i32 + 64 } else { 0 };
    chk!(s, inv == want, "types.HalfPel.invert.post: the other member of the MVD pair (v -/+ 64 half-sample units)");
    let w = HalfPel(v).is_mv_within_range(HalfPel(r));
    chk!(s, w == (-(r as i32) <= v as i32 && (v as i32) < r as i32), "types.HalfPel.is_mv_within_range.post: -range <= v < range");
    s.reach();
}

// HalfPel::average_sum_of_mvs == Table 16 rounding of sum/8, for every i16 sum (the four-vector sums are -128..=124)
fn h_chroma_round<S: Src>(s: &mut S) {
    let v = s.i16();
    let r = HalfPel(v).average_sum_of_mvs().0 as i32;
    chk!(s, r == h263_spec::chroma_from_sum(v as i32), "types.HalfPel.average_sum_of_mvs.post: == sign(s)*(Table16[|s| mod 16] + 2*(|s| div 16))");
    s.reach();
}

// HalfPel::median_of == the middle value, all triples
fn h_median<S: Src>(s: &mut S) {
    let (a, b, c) = (s.i16(), s.i16(), s.i16());
    let m = HalfPel(a).median_of(HalfPel(b), HalfPel(c)).0 as i32;
    chk!(s, m == h263_spec::median3(a as i32, b as i32, c as i32), "types.HalfPel.median_of.post: the middle of the three values");
    s.reach();
}

// HalfPel + HalfPel: no overflow and exact when both operands are within +-8192 (the decode loop's invariant)
fn h_add<S: Src>(s: &mut S) {
    let (a, b) = (s.i16(), s.i16());
    s.assume(a >= -8192 && a <= 8192 && b >= -8192 && b <= 8192);
    let r = (HalfPel(a) + HalfPel(b)).0 as i32;
    chk!(s, r == a as i32 + b as i32, "types.HalfPel.add.post: exact sum");
    let mv = MotionVector(HalfPel(a), HalfPel(b)) + MotionVector(HalfPel(b), HalfPel(a));
    chk!(s, (mv.0).0 as i32 == a as i32 + b as i32 && (mv.1).0 as i32 == a as i32 + b as i32, "types.MotionVector.add.post: component-wise sum");
    s.reach();
}

// MotionVector wrappers are component-wise
fn h_mv_wrappers<S: Src>(s: &mut S) {
    let (a, b, c, d, e, f) = (s.i16(), s.i16(), s.i16(), s.i16(), s.i16(), s.i16());
    let m = MotionVector(HalfPel(a), HalfPel(b));
    let med = m.median_of(MotionVector(HalfPel(c), HalfPel(d)), MotionVector(HalfPel(e), HalfPel(f)));
    chk!(s, (med.0).0 as i32 == h263_spec::median3(a as i32, c as i32, e as i32) && (med.1).0 as i32 == h263_spec::median3(b as i32, d as i32, f as i32),
         "types.MotionVector.median_of.post: component-wise median");
    let avg = m.average_sum_of_mvs();
    chk!(s, (avg.0).0 as i32 == h263_spec::chroma_from_sum(a as i32) && (avg.1).0 as i32 == h263_spec::chroma_from_sum(b as i32),
         "types.MotionVector.average_sum_of_mvs.post: component-wise Table 16 rounding");
    let ((dx, hx), (dy, hy)) = m.into_lerp_parameters();
    chk!(s, dx as i32 == (a as i32).div_euclid(2) && hx == ((a as i32).rem_euclid(2) == 1) && dy as i32 == (b as i32).div_euclid(2) && hy == ((b as i32).rem_euclid(2) == 1),
         "types.MotionVector.into_lerp_parameters.post: component-wise (floor(v/2), v odd)");
    let (x, y): (HalfPel, HalfPel) = m.into();
    let back: MotionVector = (x, y).into();
    chk!(s, x.0 == a && y.0 == b && (back.0).0 == a && (back.1).0 == b, "types.MotionVector.from_into.post: (x, y) round trip");
    chk!(s, (MotionVector::zero().0).0 == 0 && (MotionVector::zero().1).0 == 0 && HalfPel::zero().0 == 0 && HalfPel::from_unit(a).0 == a, "types.zero.post");
    s.reach();
}

// IntraDc::from_u8 / into_level == Table 15, all 256 codes
fn h_intradc<S: Src>(s: &mut S) {
    let code = s.u8();
    match (IntraDc::from_u8(code), h263_spec::intradc_level(code)) {
        (None, None) => {}
        (Some(dc), Some(l)) => {
            chk!(s, dc.into_level() as i32 == l, "types.IntraDc.into_level.post: 8*code, 255 -> 1024");
        }
        _ => {
            chk!(s, false, "types.IntraDc.from_u8.post: None exactly for codes 0 and 128");
        }
    }
    s.reach();
}

// MacroblockType / PictureTypeCode predicates (used by the decode-body contracts in the Verus units)
fn h_type_preds<S: Src>(s: &mut S) {
    let k = s.u8();
    s.assume(k < 6);
    let t = match k {
        0 => MacroblockType::Inter,
        1 => MacroblockType::InterQ,
        2 => MacroblockType::Inter4V,
        3 => MacroblockType::Intra,
        4 => MacroblockType::IntraQ,
        _ => MacroblockType::Inter4Vq,
    };
    chk!(s, t.is_inter() == (k == 0 || k == 1 || k == 2 || k == 5), "types.MacroblockType.is_inter.post");
    chk!(s, t.is_intra() == (k == 3 || k == 4), "types.MacroblockType.is_intra.post");
    chk!(s, t.has_fourvec() == (k == 2 || k == 5), "types.MacroblockType.has_fourvec.post");
    chk!(s, t.has_quantizer() == (k == 1 || k == 4 || k == 5), "types.MacroblockType.has_quantizer.post");
    chk!(s, PictureTypeCode::DisposablePFrame.is_disposable() && !PictureTypeCode::IFrame.is_disposable() && !PictureTypeCode::PFrame.is_disposable(),
         "types.PictureTypeCode.is_disposable.post");
    s.reach();
}

#[cfg(kani)]
mod proofs {
    use super::*;
    #[kani::proof]
    fn lerp_params() {
        h_lerp_params(&mut KSrc)
    }
    #[kani::proof]
    fn invert_range() {
        h_invert_range(&mut KSrc)
    }
    #[kani::proof]
    #[kani::unwind(18)]
    fn chroma_round() {
        h_chroma_round(&mut KSrc)
    }
    #[kani::proof]
    fn median() {
        h_median(&mut KSrc)
    }
    #[kani::proof]
    fn add() {
        h_add(&mut KSrc)
    }
    #[kani::proof]
    fn mv_wrappers() {
        h_mv_wrappers(&mut KSrc)
    }
    #[kani::proof]
    fn intradc() {
        h_intradc(&mut KSrc)
    }
    #[kani::proof]
    fn type_preds() {
        h_type_preds(&mut KSrc)
    }
}

#[cfg(all(test, not(kani)))]
mod replay {
    use super::*;
    fn dispatch(name: &str, r: &mut RSrc) -> bool {
        match name {
            "lerp_params" => h_lerp_params(r),
            "invert_range" => h_invert_range(r),
            "chroma_round" => h_chroma_round(r),
            "median" => h_median(r),
            "add" => h_add(r),
            "mv_wrappers" => h_mv_wrappers(r),
            "intradc" => h_intradc(r),
            "type_preds" => h_type_preds(r),
            _ => return false,
        }
        true
    }
    #[test]
    fn verif_replay() {
        verif_replay_main(dispatch)
    }
}
