// C06, standard mode: the ASSEMBLY obligation of decode_picture - which field parser is called, in which order, under which presence
// condition, with which arguments, and into which field of the header record its result goes - proved modularly: every field parser is
// replaced by a contract stub (the field parsers themselves are proved against their H.263 5.1 specifications in the Verus `picture`
// unit), the stub logs the call, returns a symbolic / tagged value or fails, and the harness compares the log and the record with the
// order and presence conditions of the Recommendation (H.263 5.1, Figure 7: PSC TR PTYPE [PLUSPTYPE CPM PSBI] [CPFMT EPAR] [CPCFC ETR] [UUI] [SSS]
// [ELNUM RLNUM] [RPSMF] [TRPI TRP] [BCI BCM] [RPRP] PQUANT [CPM PSBI] [TRB DBQUANT] PEI/PSUPP). The bits decode_picture reads itself (GN, TR,
// ETR, PQUANT) are compared with a symbolic stream read through the real reader. Loop-free and complete over all combinations of
// PTYPE / PLUSPTYPE results, follower sets, option sets, decoder options, previous headers and failing parsers.
#[cfg(kani)]
pub mod asm {
    use super::*;

    pub const T_PTYPE: u8 = 1;
    pub const T_PLUS: u8 = 2;
    pub const T_CPM: u8 = 3;
    pub const T_CPFMT: u8 = 4;
    pub const T_CPCFC: u8 = 5;
    pub const T_UUI: u8 = 6;
    pub const T_SSS: u8 = 7;
    pub const T_ELNUM: u8 = 8;
    pub const T_RPSMF: u8 = 9;
    pub const T_TRPI: u8 = 10;
    pub const T_BCM: u8 = 11;
    pub const T_RPRP: u8 = 12;
    pub const T_TRB: u8 = 13;
    pub const T_DBQ: u8 = 14;
    pub const T_PEI: u8 = 15;

    pub static mut LOG: [u8; 24] = [0; 24];
    pub static mut NLOG: usize = 0;
    pub static mut FAIL_AT: usize = 99;
    // what the stubs return (set by the harness, symbolic)
    pub static mut PT_OPTS: u32 = 0;
    pub static mut PT_PLUS: bool = false;
    pub static mut PT_FMT: u8 = 0;
    pub static mut PT_TYPE: u8 = 0;
    pub static mut PP_OPTS: u32 = 0;
    pub static mut PP_FMT: u8 = 0; // 0: None
    pub static mut PP_TYPE: u8 = 0;
    pub static mut PP_FOLLOW: u8 = 0;
    pub static mut PP_HASOPP: bool = false;
    pub static mut CPM_A: u8 = 0; // first call
    pub static mut CPM_B: u8 = 0; // second call
    pub static mut NCPM: u8 = 0;
    pub static mut TRP: u16 = 0;
    pub static mut TRP_SOME: bool = false;
    pub static mut TRB: u8 = 0;
    // arguments the stubs received
    pub static mut ARG_PLUS_DEC: u8 = 0xFF;
    pub static mut ARG_PLUS_PREV: u32 = 0xFFFF_FFFF;
    pub static mut ARG_ELNUM_FOLLOW: u8 = 0xFF;
    pub static mut ARG_TRB_PCLK: u8 = 0xFF;

    fn log(tag: u8) -> bool {
        unsafe {
            let k = NLOG;
            if k < 24 {
                LOG[k] = tag;
            }
            NLOG = k + 1;
            k == FAIL_AT
        }
    }
    pub fn fmt_of(c: u8) -> Option<SourceFormat> {
        match c {
            0 => None,
            1 => Some(SourceFormat::SubQcif),
            2 => Some(SourceFormat::QuarterCif),
            3 => Some(SourceFormat::FullCif),
            4 => Some(SourceFormat::FourCif),
            5 => Some(SourceFormat::SixteenCif),
            _ => Some(SourceFormat::Reserved),
        }
    }
    pub fn type_of(c: u8) -> PictureTypeCode {
        match c {
            0 => PictureTypeCode::IFrame,
            1 => PictureTypeCode::PFrame,
            2 => PictureTypeCode::PbFrame,
            3 => PictureTypeCode::ImprovedPbFrame,
            4 => PictureTypeCode::BFrame,
            5 => PictureTypeCode::EiFrame,
            6 => PictureTypeCode::EpFrame,
            _ => PictureTypeCode::Reserved(6),
        }
    }
    pub fn type_code(t: &PictureTypeCode) -> u8 {
        match t {
            PictureTypeCode::IFrame => 0,
            PictureTypeCode::PFrame => 1,
            PictureTypeCode::PbFrame => 2,
            PictureTypeCode::ImprovedPbFrame => 3,
            PictureTypeCode::BFrame => 4,
            PictureTypeCode::EiFrame => 5,
            PictureTypeCode::EpFrame => 6,
            PictureTypeCode::Reserved(_) => 7,
            PictureTypeCode::DisposablePFrame => 8,
        }
    }
    pub fn cpfmt_tag() -> CustomPictureFormat {
        CustomPictureFormat { pixel_aspect_ratio: PixelAspectRatio::Par16_11, picture_width_indication: 1236, picture_height_indication: 772 }
    }

    pub fn s_ptype<R: Read>(_r: &mut H263Reader<R>) -> Result<PType> {
        if log(T_PTYPE) {
            return Err(Error::InvalidBitstream);
        }
        unsafe {
            let o = PictureOption::from_bits_truncate(PT_OPTS);
            if PT_PLUS {
                Ok((o, None))
            } else {
                Ok((o, Some((fmt_of(1 + PT_FMT % 6).unwrap(), type_of(PT_TYPE)))))
            }
        }
    }
    pub fn s_plusptype<R: Read>(_r: &mut H263Reader<R>, d: DecoderOption, prev: PictureOption) -> Result<PlusPType> {
        unsafe {
            ARG_PLUS_DEC = d.bits();
            ARG_PLUS_PREV = prev.bits();
        }
        if log(T_PLUS) {
            return Err(Error::InvalidBitstream);
        }
        unsafe { Ok((PictureOption::from_bits_truncate(PP_OPTS), fmt_of(PP_FMT % 7), type_of(PP_TYPE), PlusPTypeFollower::from_bits_truncate(PP_FOLLOW), PP_HASOPP)) }
    }
    pub fn s_cpm<R: Read>(_r: &mut H263Reader<R>) -> Result<Option<u8>> {
        if log(T_CPM) {
            return Err(Error::InvalidBitstream);
        }
        unsafe {
            NCPM += 1;
            let v = if NCPM == 1 { CPM_A } else { CPM_B };
            Ok(if v & 4 == 4 { Some(v & 3) } else { None })
        }
    }
    pub fn s_cpfmt<R: Read>(_r: &mut H263Reader<R>) -> Result<CustomPictureFormat> {
        if log(T_CPFMT) {
            return Err(Error::InvalidBitstream);
        }
        Ok(cpfmt_tag())
    }
    pub fn s_cpcfc<R: Read>(_r: &mut H263Reader<R>) -> Result<CustomPictureClock> {
        if log(T_CPCFC) {
            return Err(Error::InvalidBitstream);
        }
        Ok(CustomPictureClock { times_1001: true, divisor: 77 })
    }
    pub fn s_uui<R: Read>(_r: &mut H263Reader<R>) -> Result<MotionVectorRange> {
        if log(T_UUI) {
            return Err(Error::InvalidBitstream);
        }
        Ok(MotionVectorRange::Extended)
    }
    pub fn s_sss<R: Read>(_r: &mut H263Reader<R>) -> Result<SliceSubmode> {
        if log(T_SSS) {
            return Err(Error::InvalidBitstream);
        }
        Ok(SliceSubmode::ARBITRARY_ORDER)
    }
    pub fn s_elnum<R: Read>(_r: &mut H263Reader<R>, f: PlusPTypeFollower) -> Result<ScalabilityLayer> {
        unsafe {
            ARG_ELNUM_FOLLOW = f.bits();
        }
        if log(T_ELNUM) {
            return Err(Error::InvalidBitstream);
        }
        Ok(ScalabilityLayer { enhancement: 9, reference: Some(4) })
    }
    pub fn s_rpsmf<R: Read>(_r: &mut H263Reader<R>) -> Result<ReferencePictureSelectionMode> {
        if log(T_RPSMF) {
            return Err(Error::InvalidBitstream);
        }
        Ok(ReferencePictureSelectionMode::REQUEST_NEGATIVE_ACKNOWLEDGEMENT)
    }
    pub fn s_trpi<R: Read>(_r: &mut H263Reader<R>) -> Result<Option<u16>> {
        if log(T_TRPI) {
            return Err(Error::InvalidBitstream);
        }
        unsafe { Ok(if TRP_SOME { Some(TRP) } else { None }) }
    }
    pub fn s_bcm<R: Read>(_r: &mut H263Reader<R>) -> Result<Option<BackchannelMessage>> {
        if log(T_BCM) {
            return Err(Error::InvalidBitstream);
        }
        Ok(None)
    }
    pub fn s_rprp<R: Read>(_r: &mut H263Reader<R>) -> Result<Option<ReferencePictureResampling>> {
        if log(T_RPRP) {
            return Err(Error::InvalidBitstream);
        }
        Ok(None)
    }
    pub fn s_trb<R: Read>(_r: &mut H263Reader<R>, pclk: bool) -> Result<u8> {
        unsafe {
            ARG_TRB_PCLK = pclk as u8;
        }
        if log(T_TRB) {
            return Err(Error::InvalidBitstream);
        }
        unsafe { Ok(TRB) }
    }
    pub fn s_dbquant<R: Read>(_r: &mut H263Reader<R>) -> Result<BPictureQuantizer> {
        if log(T_DBQ) {
            return Err(Error::InvalidBitstream);
        }
        Ok(BPictureQuantizer::Seven)
    }
    pub fn s_pei<R: Read>(_r: &mut H263Reader<R>) -> Result<Vec<u8>> {
        if log(T_PEI) {
            return Err(Error::InvalidBitstream);
        }
        Ok(Vec::new())
    }

    fn bits(all: &[u8; 6], pos: usize, n: usize) -> u32 {
        let mut acc = 0u32;
        let mut k = 0;
        while k < n {
            let p = pos + k;
            acc = (acc << 1) | ((all[p / 8] >> (7 - (p % 8))) & 1) as u32;
            k += 1;
        }
        acc
    }

    pub fn std_assembly() {
        // stream: start code at bit 0, then GN (5), TR (8), [ETR (2)], PQUANT (5) - the stubs consume nothing
        let mut all: [u8; 6] = kani::any();
        all[0] = 0;
        all[1] = 0;
        all[2] = 0x80 | (all[2] & 0x7F);
        let gn = bits(&all, 17, 5);
        let dec_bits: u8 = kani::any();
        kani::assume(dec_bits & 1 == 0 && dec_bits < 4); // standard mode; scalability on or off
        let dec = DecoderOption::from_bits_truncate(dec_bits);
        // previous header: none, or one with arbitrary options / format
        let has_prev: bool = kani::any();
        let prev_opts: u32 = kani::any();
        let prev_fmt: u8 = kani::any();
        let prev = Picture {
            version: None, temporal_reference: 0, format: fmt_of(prev_fmt % 7), options: PictureOption::from_bits_truncate(prev_opts), has_plusptype: true, has_opptype: kani::any(),
            picture_type: PictureTypeCode::PFrame, motion_vector_range: None, slice_submode: None, scalability_layer: None, reference_picture_selection_mode: None,
            prediction_reference: None, backchannel_message: None, reference_picture_resampling: None, quantizer: 1, multiplex_bitstream: None, pb_reference: None,
            pb_quantizer: None, extra: Vec::new(),
        };
        unsafe {
            FAIL_AT = kani::any();
            PT_OPTS = kani::any();
            PT_PLUS = kani::any();
            PT_FMT = kani::any();
            PT_TYPE = kani::any();
            kani::assume(PT_TYPE < 2); // PTYPE codes I or P
            PP_OPTS = kani::any();
            PP_FMT = kani::any();
            PP_TYPE = kani::any();
            kani::assume(PP_TYPE < 8);
            PP_FOLLOW = kani::any();
            kani::assume(PP_FOLLOW < 64);
            PP_HASOPP = kani::any();
            CPM_A = kani::any();
            CPM_B = kani::any();
            kani::assume(CPM_A < 8 && CPM_B < 8);
            TRP = kani::any();
            TRP_SOME = kani::any();
            TRB = kani::any();
        }
        let mut rd = H263Reader::from_source(&all[..]);
        let res = decode_picture(&mut rd, dec, if has_prev { Some(&prev) } else { None });

        // ---- the Recommendation's order and presence conditions -------------------------------------------------------------------
        let (pt_opts, plus, pp_opts, follow, pp_type, pt_type) = unsafe { (PT_OPTS & 0x1FFFF, PT_PLUS, PP_OPTS & 0x1FFFF, PP_FOLLOW, PP_TYPE, PT_TYPE) };
        let opts = if plus { pt_opts | pp_opts } else { pt_opts };
        let ptype_code = if plus { pp_type } else { pt_type };
        let fmt: Option<SourceFormat> = if plus {
            if follow & 1 == 1 { Some(SourceFormat::Extended(cpfmt_tag())) } else { unsafe { fmt_of(PP_FMT % 7) } }
        } else {
            unsafe { fmt_of(1 + PT_FMT % 6) }
        };
        let rps = opts & PictureOption::REFERENCE_PICTURE_SELECTION.bits() != 0;
        let rpr = opts & PictureOption::REFERENCE_PICTURE_RESAMPLING.bits() != 0;
        let fmt_changed = has_prev && prev.format.is_some() && fmt.is_some() && prev.format != fmt;
        let pb = ptype_code == 2 || ptype_code == 3;
        let mut exp: [u8; 24] = [0; 24];
        let mut n = 0;
        macro_rules! push {
            ($t:expr) => {{
                exp[n] = $t;
                n += 1;
            }};
        }
        push!(T_PTYPE);
        if plus {
            push!(T_PLUS);
            push!(T_CPM);
        }
        if plus && follow & 1 != 0 {
            push!(T_CPFMT);
        }
        let clock = plus && follow & 2 != 0;
        if clock {
            push!(T_CPCFC);
        }
        if plus && follow & 4 != 0 {
            push!(T_UUI);
        }
        if plus && follow & 8 != 0 {
            push!(T_SSS);
        }
        if dec_bits & 2 != 0 {
            push!(T_ELNUM);
        }
        if plus && follow & 32 != 0 {
            push!(T_RPSMF);
        }
        if rps {
            push!(T_TRPI);
            push!(T_BCM);
        }
        if rpr || fmt_changed {
            push!(T_RPRP);
        }
        if !plus {
            push!(T_CPM);
        }
        if pb {
            push!(T_TRB);
            push!(T_DBQ);
        }
        push!(T_PEI);

        let (nlog, fail_at) = unsafe { (NLOG, FAIL_AT) };
        if gn != 0 {
            // a GOB header, not a picture header: nothing is parsed
            assert!(matches!(res, Ok(None)) && nlog == 0, "picture.decode_picture.std_gob: a non-zero group number after the start code is not a picture header and no field is parsed");
            core::mem::forget(res);
            return;
        }
        // calls made == the expected prefix (all of it unless a parser failed)
        let made = if fail_at < n { fail_at + 1 } else { n };
        assert!(nlog == made, "picture.decode_picture.std_order_len: exactly the fields the Recommendation prescribes for this PTYPE / PLUSPTYPE / mode set are parsed (up to the first failing one)");
        let mut k = 0;
        let mut same = true;
        while k < 24 {
            if k < made && unsafe { LOG[k] } != exp[k] {
                same = false;
            }
            k += 1;
        }
        assert!(same, "picture.decode_picture.std_order: the fields are parsed in the order of H.263 5.1 (PTYPE PLUSPTYPE CPM/PSBI CPFMT CPCFC [ETR] UUI SSS ELNUM/RLNUM RPSMF TRPI/TRP BCI/BCM RPRP [PQUANT] CPM/PSBI TRB DBQUANT PEI)");
        if plus && made >= 2 {
            let want_prev = if has_prev { prev_opts & 0x1FFFF } else { 0 };
            assert!(unsafe { ARG_PLUS_DEC } == dec_bits && unsafe { ARG_PLUS_PREV } == want_prev, "picture.decode_picture.std_plusptype_args: PLUSPTYPE inherits from the previous header's options (none: the empty set)");
        }
        match res {
            Err(e) => {
                assert!(fail_at < n, "picture.decode_picture.std_err: decode_picture fails only when a field fails (the stream holds enough bits here)");
                core::mem::forget(e);
            }
            Ok(None) => assert!(false, "picture.decode_picture.std_some: a picture header yields a header record"),
            Ok(Some(p)) => {
                assert!(fail_at >= n, "picture.decode_picture.std_err_propagates: a failing field parser fails the header");
                let tr = bits(&all, 22, 8);
                let (want_tr, qpos) = if clock { ((bits(&all, 30, 2) << 8) | tr, 32) } else { (tr, 30) };
                assert!(p.version.is_none() && p.temporal_reference as u32 == want_tr, "picture.decode_picture.std_tr: TR, extended by ETR as the two high bits when a custom picture clock is signalled");
                assert!(p.quantizer as u32 == bits(&all, qpos, 5), "picture.decode_picture.std_pquant: PQUANT is the five bits after the optional fields");
                assert!(p.format == fmt, "picture.decode_picture.std_format: PTYPE / PLUSPTYPE source format, replaced by CPFMT when a custom format follows");
                assert!(p.options.bits() == opts, "picture.decode_picture.std_options: PTYPE options united with the PLUSPTYPE options");
                assert!(p.has_plusptype == plus && p.has_opptype == (plus && unsafe { PP_HASOPP }), "picture.decode_picture.std_plus_flags");
                assert!(type_code(&p.picture_type) == ptype_code, "picture.decode_picture.std_type: picture coding type from PTYPE, from MPPTYPE when PLUSPTYPE is present");
                assert!(matches!(p.motion_vector_range, Some(MotionVectorRange::Extended)) == (plus && follow & 4 != 0) && (p.motion_vector_range.is_none() == !(plus && follow & 4 != 0)), "picture.decode_picture.std_uui");
                assert!(p.slice_submode.as_ref().map(|m| m.bits()) == if plus && follow & 8 != 0 { Some(2) } else { None }, "picture.decode_picture.std_sss");
                assert!(p.scalability_layer.as_ref().map(|l| (l.enhancement, l.reference)) == if dec_bits & 2 != 0 { Some((9, Some(4))) } else { None }, "picture.decode_picture.std_layer");
                if dec_bits & 2 != 0 {
                    assert!(unsafe { ARG_ELNUM_FOLLOW } == if plus { follow } else { 0 }, "picture.decode_picture.std_elnum_args: RLNUM presence is decided by this header's PLUSPTYPE");
                }
                assert!(p.reference_picture_selection_mode.as_ref().map(|m| m.bits()) == if plus && follow & 32 != 0 { Some(2) } else { None }, "picture.decode_picture.std_rpsmf");
                assert!(p.prediction_reference == if rps && unsafe { TRP_SOME } { Some(unsafe { TRP }) } else { None }, "picture.decode_picture.std_trp");
                assert!(p.backchannel_message.is_none() && p.reference_picture_resampling.is_none(), "picture.decode_picture.std_bcm_rprp");
                let cpm = unsafe { CPM_A };
                assert!(p.multiplex_bitstream == if cpm & 4 == 4 { Some(cpm & 3) } else { None }, "picture.decode_picture.std_cpm: CPM/PSBI from its single occurrence (after PLUSPTYPE, else after PQUANT)");
                assert!(p.pb_reference == if pb { Some(unsafe { TRB }) } else { None } && matches!(p.pb_quantizer, Some(BPictureQuantizer::Seven)) == pb && p.pb_quantizer.is_none() == !pb, "picture.decode_picture.std_trb_dbquant: TRB / DBQUANT exactly for PB and Improved PB pictures");
                if pb {
                    assert!(unsafe { ARG_TRB_PCLK } == clock as u8, "picture.decode_picture.std_trb_args: TRB is five bits wide exactly when a custom picture clock is signalled in this header");
                }
                assert!(p.extra.is_empty(), "picture.decode_picture.std_pei");
                kani::cover!(true, "reach_end");
            }
        }
    }
}
