// C06, standard mode: the ASSEMBLY obligation of decode_picture - which field parser is called, in which order, under which presence
// condition, with which arguments, and into which field of the header record its result goes - proved modularly: every field parser is
// replaced by a contract stub (the field parsers themselves are proved against their H.263 5.1 specifications in the Verus `picture`
// unit), the stub logs the call, returns a symbolic / tagged value or fails, and the harness compares the log and the record with the
// order and presence conditions of the Recommendation (H.263 5.1, Figure 7: PSC TR PTYPE [PLUSPTYPE CPM PSBI] [CPFMT EPAR] [CPCFC ETR] [UUI] [SSS]
// [ELNUM RLNUM] [RPSMF] [TRPI TRP] [BCI BCM] [RPRP] PQUANT [CPM PSBI] [TRB DBQUANT] PEI/PSUPP). The bits decode_picture reads itself (GN, TR,
// ETR, PQUANT) go through contract stubs of the reader operations (proved on the real reader in C14), which log the call and its width
// and return symbolic values, so their place in the sequence is part of the obligation. Loop-free and complete over all combinations of
// PTYPE / PLUSPTYPE results, follower sets, option sets, decoder options, previous headers and failing parsers.
#[cfg(kani)]
pub mod asm {
    use super::*;

    pub const T_PTYPE: u8 = 1;
    pub const T_PLUS: u8 = 2;
    pub const T_CPM: u8 = 3;
    pub const T_CPFMT: u8 = 4;
    pub const T_CPCFC: u8 = 5;
    pub const T_UUI: u8 = 6;
    pub const T_SSS: u8 = 7;
    pub const T_ELNUM: u8 = 8;
    pub const T_RPSMF: u8 = 9;
    pub const T_TRPI: u8 = 10;
    pub const T_BCM: u8 = 11;
    pub const T_RPRP: u8 = 12;
    pub const T_TRB: u8 = 13;
    pub const T_DBQ: u8 = 14;
    pub const T_PEI: u8 = 15;

    // what the stubs return (set by the harness, symbolic)
    // arguments the stubs received

    // All harness state lives in ONE static whose first field is a magic number. (Kani 0.68 merges a constant allocation with a `static mut`
    // that has the same initial bytes: with separate `static mut X: u8 = 0` items the constant `MotionVectorRange::Extended` was compiled as a
    // read of one of them and changed when the harness wrote it. A struct with a distinctive initial value cannot collide with a constant.)
    pub struct St {
        pub magic: u64,
        pub log: [u8; 32],
        pub nlog: usize,
        pub fail_at: usize,
        pub pt_opts: u32,
        pub pt_plus: bool,
        pub pt_fmt: u8,
        pub pt_type: u8,
        pub pp_opts: u32,
        pub pp_fmt: u8, // 0: None
        pub pp_type: u8,
        pub pp_follow: u8,
        pub pp_hasopp: bool,
        pub cpm_a: u8, // first call
        pub cpm_b: u8, // second call
        pub ncpm: u8,
        pub trp: u16,
        pub trp_some: bool,
        pub trb: u8,
        pub arg_plus_dec: u8,
        pub arg_plus_prev: u32,
        pub arg_elnum_follow: u8,
        pub arg_trb_pclk: u8,
        pub sc_skip: u32,
        pub arg_skip: u32,
        pub vals: [u8; 4],
        pub nrd: usize,
    }
    pub static mut ST: St = St {
        magic: 0x5EED_C0DE_0BAD_F00D,
        log: [0; 32],
        nlog: 0,
        fail_at: 99,
        pt_opts: 0,
        pt_plus: false,
        pt_fmt: 0,
        pt_type: 0,
        pp_opts: 0,
        pp_fmt: 0,
        pp_type: 0,
        pp_follow: 0,
        pp_hasopp: false,
        cpm_a: 0,
        cpm_b: 0,
        ncpm: 0,
        trp: 0,
        trp_some: false,
        trb: 0,
        arg_plus_dec: 0xFF,
        arg_plus_prev: 0xFFFF_FFFF,
        arg_elnum_follow: 0xFF,
        arg_trb_pclk: 0xFF,
        sc_skip: 0,
        arg_skip: 0,
        vals: [0; 4],
        nrd: 0,
    };

    fn log(tag: u8) -> bool {
        unsafe {
            let k = ST.nlog;
            if k < 32 {
                ST.log[k] = tag;
            }
            ST.nlog = k + 1;
            k == ST.fail_at
        }
    }
    pub fn fmt_of(c: u8) -> Option<SourceFormat> {
        match c {
            0 => None,
            1 => Some(SourceFormat::SubQcif),
            2 => Some(SourceFormat::QuarterCif),
            3 => Some(SourceFormat::FullCif),
            4 => Some(SourceFormat::FourCif),
            5 => Some(SourceFormat::SixteenCif),
            _ => Some(SourceFormat::Reserved),
        }
    }
    pub fn type_of(c: u8) -> PictureTypeCode {
        match c {
            0 => PictureTypeCode::IFrame,
            1 => PictureTypeCode::PFrame,
            2 => PictureTypeCode::PbFrame,
            3 => PictureTypeCode::ImprovedPbFrame,
            4 => PictureTypeCode::BFrame,
            5 => PictureTypeCode::EiFrame,
            6 => PictureTypeCode::EpFrame,
            _ => PictureTypeCode::Reserved(6),
        }
    }
    pub fn type_code(t: &PictureTypeCode) -> u8 {
        match t {
            PictureTypeCode::IFrame => 0,
            PictureTypeCode::PFrame => 1,
            PictureTypeCode::PbFrame => 2,
            PictureTypeCode::ImprovedPbFrame => 3,
            PictureTypeCode::BFrame => 4,
            PictureTypeCode::EiFrame => 5,
            PictureTypeCode::EpFrame => 6,
            PictureTypeCode::Reserved(_) => 7,
            PictureTypeCode::DisposablePFrame => 8,
        }
    }
    pub fn cpfmt_tag() -> CustomPictureFormat {
        CustomPictureFormat { pixel_aspect_ratio: PixelAspectRatio::Par16_11, picture_width_indication: 1236, picture_height_indication: 772 }
    }

    pub fn s_ptype<R: Read>(_r: &mut H263Reader<R>) -> Result<PType> {
        if log(T_PTYPE) {
            return Err(Error::InvalidBitstream);
        }
        unsafe {
            let o = PictureOption::from_bits_truncate(ST.pt_opts);
            if ST.pt_plus {
                Ok((o, None))
            } else {
                Ok((o, Some((fmt_of(1 + ST.pt_fmt % 6).unwrap(), type_of(ST.pt_type)))))
            }
        }
    }
    pub fn s_plusptype<R: Read>(_r: &mut H263Reader<R>, d: DecoderOption, prev: PictureOption) -> Result<PlusPType> {
        unsafe {
            ST.arg_plus_dec = d.bits();
            ST.arg_plus_prev = prev.bits();
        }
        if log(T_PLUS) {
            return Err(Error::InvalidBitstream);
        }
        unsafe { Ok((PictureOption::from_bits_truncate(ST.pp_opts), fmt_of(ST.pp_fmt % 7), type_of(ST.pp_type), PlusPTypeFollower::from_bits_truncate(ST.pp_follow), ST.pp_hasopp)) }
    }
    pub fn s_cpm<R: Read>(_r: &mut H263Reader<R>) -> Result<Option<u8>> {
        if log(T_CPM) {
            return Err(Error::InvalidBitstream);
        }
        unsafe {
            ST.ncpm += 1;
            let v = if ST.ncpm == 1 { ST.cpm_a } else { ST.cpm_b };
            Ok(if v & 4 == 4 { Some(v & 3) } else { None })
        }
    }
    pub fn s_cpfmt<R: Read>(_r: &mut H263Reader<R>) -> Result<CustomPictureFormat> {
        if log(T_CPFMT) {
            return Err(Error::InvalidBitstream);
        }
        Ok(cpfmt_tag())
    }
    pub fn s_cpcfc<R: Read>(_r: &mut H263Reader<R>) -> Result<CustomPictureClock> {
        if log(T_CPCFC) {
            return Err(Error::InvalidBitstream);
        }
        Ok(CustomPictureClock { times_1001: true, divisor: 77 })
    }
    pub fn s_uui<R: Read>(_r: &mut H263Reader<R>) -> Result<MotionVectorRange> {
        if log(T_UUI) {
            return Err(Error::InvalidBitstream);
        }
        Ok(MotionVectorRange::Extended)
    }
    pub fn s_sss<R: Read>(_r: &mut H263Reader<R>) -> Result<SliceSubmode> {
        if log(T_SSS) {
            return Err(Error::InvalidBitstream);
        }
        Ok(SliceSubmode::ARBITRARY_ORDER)
    }
    pub fn s_elnum<R: Read>(_r: &mut H263Reader<R>, f: PlusPTypeFollower) -> Result<ScalabilityLayer> {
        unsafe {
            ST.arg_elnum_follow = f.bits();
        }
        if log(T_ELNUM) {
            return Err(Error::InvalidBitstream);
        }
        Ok(ScalabilityLayer { enhancement: 9, reference: Some(4) })
    }
    pub fn s_rpsmf<R: Read>(_r: &mut H263Reader<R>) -> Result<ReferencePictureSelectionMode> {
        if log(T_RPSMF) {
            return Err(Error::InvalidBitstream);
        }
        Ok(ReferencePictureSelectionMode::REQUEST_NEGATIVE_ACKNOWLEDGEMENT)
    }
    pub fn s_trpi<R: Read>(_r: &mut H263Reader<R>) -> Result<Option<u16>> {
        if log(T_TRPI) {
            return Err(Error::InvalidBitstream);
        }
        unsafe { Ok(if ST.trp_some { Some(ST.trp) } else { None }) }
    }
    pub fn s_bcm<R: Read>(_r: &mut H263Reader<R>) -> Result<Option<BackchannelMessage>> {
        if log(T_BCM) {
            return Err(Error::InvalidBitstream);
        }
        Ok(None)
    }
    pub fn s_rprp<R: Read>(_r: &mut H263Reader<R>) -> Result<Option<ReferencePictureResampling>> {
        if log(T_RPRP) {
            return Err(Error::InvalidBitstream);
        }
        Ok(None)
    }
    pub fn s_trb<R: Read>(_r: &mut H263Reader<R>, pclk: bool) -> Result<u8> {
        unsafe {
            ST.arg_trb_pclk = pclk as u8;
        }
        if log(T_TRB) {
            return Err(Error::InvalidBitstream);
        }
        unsafe { Ok(ST.trb) }
    }
    pub fn s_dbquant<R: Read>(_r: &mut H263Reader<R>) -> Result<BPictureQuantizer> {
        if log(T_DBQ) {
            return Err(Error::InvalidBitstream);
        }
        Ok(BPictureQuantizer::Seven)
    }
    pub fn s_pei<R: Read>(_r: &mut H263Reader<R>) -> Result<Vec<u8>> {
        if log(T_PEI) {
            return Err(Error::InvalidBitstream);
        }
        Ok(Vec::new())
    }

    pub const T_SC: u8 = 0x40;
    pub const T_SKIP: u8 = 0x41;
    pub const T_RD: u8 = 0x80; // | width
    impl<R: Read> H263Reader<R> {
        pub fn verif_s_recognize(&mut self, in_error: bool) -> Result<Option<u32>> {
            if log(T_SC) || in_error {
                return Err(Error::InvalidBitstream);
            }
            unsafe { Ok(Some(ST.sc_skip)) }
        }
        pub fn verif_s_skip(&mut self, n: u32) -> Result<()> {
            unsafe {
                ST.arg_skip = n;
            }
            if log(T_SKIP) {
                return Err(Error::InvalidBitstream);
            }
            Ok(())
        }
        pub fn verif_s_read_bits<T: crate::traits::BitReadable>(&mut self, n: u32) -> Result<T> {
            if log(T_RD | (n as u8 & 0x3F)) {
                return Err(Error::InvalidBitstream);
            }
            unsafe {
                let k = ST.nrd;
                ST.nrd = k + 1;
                let v = if k < 4 { ST.vals[k] } else { 0 };
                Ok(T::from(v))
            }
        }
    }

    fn bits(all: &[u8; 6], pos: usize, n: usize) -> u32 {
        let mut acc = 0u32;
        let mut k = 0;
        while k < n {
            let p = pos + k;
            acc = (acc << 1) | ((all[p / 8] >> (7 - (p % 8))) & 1) as u32;
            k += 1;
        }
        acc
    }

    pub fn std_assembly<const INJECT: bool, const CASE: u8>() {
        // what the reader delivers to decode_picture's own reads, in order: GN (5 bits), TR (8), [ETR (2)], PQUANT (5)
        let all: [u8; 6] = [0; 6];
        let vals: [u8; 4] = kani::any();
        kani::assume(vals[0] < 32);
        let sc_skip: u32 = kani::any();
        kani::assume(sc_skip <= 8);
        unsafe {
            ST.vals = vals;
            ST.sc_skip = sc_skip;
        }
        let gn = vals[0] as u32;
        let dec_bits: u8 = kani::any();
        kani::assume(dec_bits & 1 == 0 && dec_bits < 4); // standard mode; scalability on or off
        let dec = DecoderOption::from_bits_truncate(dec_bits);
        // previous header: none, or one with arbitrary options / format
        let has_prev: bool = kani::any();
        let prev_opts: u32 = kani::any();
        let prev_fmt: u8 = kani::any();
        let prev = Picture {
            version: None, temporal_reference: 0, format: fmt_of(prev_fmt % 7), options: PictureOption::from_bits_truncate(prev_opts), has_plusptype: true, has_opptype: kani::any(),
            picture_type: PictureTypeCode::PFrame, motion_vector_range: None, slice_submode: None, scalability_layer: None, reference_picture_selection_mode: None,
            prediction_reference: None, backchannel_message: None, reference_picture_resampling: None, quantizer: 1, multiplex_bitstream: None, pb_reference: None,
            pb_quantizer: None, extra: Vec::new(),
        };
        unsafe {
            ST.fail_at = if INJECT { kani::any() } else { 99 };
            ST.pt_opts = kani::any();
            ST.pt_plus = if CASE == 0 { false } else if CASE == 1 { true } else { kani::any() };
            ST.pt_fmt = kani::any();
            ST.pt_type = kani::any();
            kani::assume(ST.pt_type < 2); // PTYPE codes I or P
            ST.pp_opts = kani::any();
            ST.pp_fmt = kani::any();
            ST.pp_type = kani::any();
            kani::assume(ST.pp_type < 8);
            ST.pp_follow = kani::any();
            kani::assume(ST.pp_follow < 64);
            ST.pp_hasopp = kani::any();
            ST.cpm_a = kani::any();
            ST.cpm_b = kani::any();
            kani::assume(ST.cpm_a < 8 && ST.cpm_b < 8);
            ST.trp = kani::any();
            ST.trp_some = kani::any();
            ST.trb = kani::any();
        }
        let mut rd = H263Reader::from_source(&all[..]);
        let res = decode_picture(&mut rd, dec, if has_prev { Some(&prev) } else { None });

        // ---- the Recommendation's order and presence conditions -------------------------------------------------------------------
        let (pt_opts, plus, pp_opts, follow, pp_type, pt_type) = unsafe { (ST.pt_opts & 0x1FFFF, ST.pt_plus, ST.pp_opts & 0x1FFFF, ST.pp_follow, ST.pp_type, ST.pt_type) };
        let opts = if plus { pt_opts | pp_opts } else { pt_opts };
        let ptype_code = if plus { pp_type } else { pt_type };
        let fmt: Option<SourceFormat> = if plus {
            if follow & 1 == 1 { Some(SourceFormat::Extended(cpfmt_tag())) } else { unsafe { fmt_of(ST.pp_fmt % 7) } }
        } else {
            unsafe { fmt_of(1 + ST.pt_fmt % 6) }
        };
        let rps = opts & PictureOption::REFERENCE_PICTURE_SELECTION.bits() != 0;
        let rpr = opts & PictureOption::REFERENCE_PICTURE_RESAMPLING.bits() != 0;
        let fmt_changed = has_prev && prev.format.is_some() && fmt.is_some() && prev.format != fmt;
        let pb = ptype_code == 2 || ptype_code == 3;
        let mut exp: [u8; 32] = [0; 32];
        let mut n = 0;
        macro_rules! push {
            ($t:expr) => {{
                exp[n] = $t;
                n += 1;
            }};
        }
        push!(T_SC);
        push!(T_SKIP);
        push!(T_RD | 5); // GN
        let n_gob = n;
        push!(T_RD | 8); // TR
        push!(T_PTYPE);
        if plus {
            push!(T_PLUS);
            push!(T_CPM);
        }
        if plus && follow & 1 != 0 {
            push!(T_CPFMT);
        }
        let clock = plus && follow & 2 != 0;
        if clock {
            push!(T_CPCFC);
            push!(T_RD | 2); // ETR
        }
        if plus && follow & 4 != 0 {
            push!(T_UUI);
        }
        if plus && follow & 8 != 0 {
            push!(T_SSS);
        }
        if dec_bits & 2 != 0 {
            push!(T_ELNUM);
        }
        if plus && follow & 32 != 0 {
            push!(T_RPSMF);
        }
        if rps {
            push!(T_TRPI);
            push!(T_BCM);
        }
        if rpr || fmt_changed {
            push!(T_RPRP);
        }
        push!(T_RD | 5); // PQUANT
        if !plus {
            push!(T_CPM);
        }
        if pb {
            push!(T_TRB);
            push!(T_DBQ);
        }
        push!(T_PEI);

        let (nlog, fail_at) = unsafe { (ST.nlog, ST.fail_at) };
        if gn != 0 && fail_at >= n_gob {
            // a GOB header, not a picture header: nothing more is parsed
            assert!(matches!(res, Ok(None)) && nlog == n_gob, "picture.decode_picture.std_gob: a non-zero group number after the start code is not a picture header and no field is parsed");
            core::mem::forget(res);
            return;
        }
        if gn != 0 {
            n = n_gob;
        }
        // calls made == the expected prefix (all of it unless a parser failed)
        let made = if fail_at < n { fail_at + 1 } else { n };
        assert!(nlog == made, "picture.decode_picture.std_order_len: exactly the fields the Recommendation prescribes for this PTYPE / PLUSPTYPE / mode set are parsed (up to the first failing one)");
        let mut k = 0;
        let mut same = true;
        while k < 32 {
            if k < made && unsafe { ST.log[k] } != exp[k] {
                same = false;
            }
            k += 1;
        }
        assert!(same, "picture.decode_picture.std_order: the fields are parsed in the order of H.263 5.1 (PSC GN TR PTYPE PLUSPTYPE CPM/PSBI CPFMT CPCFC ETR UUI SSS ELNUM/RLNUM RPSMF TRPI/TRP BCI/BCM RPRP PQUANT CPM/PSBI TRB DBQUANT PEI) with the widths 5, 8, 2, 5 of GN, TR, ETR, PQUANT");
        if made >= 2 {
            assert!(unsafe { ST.arg_skip } == 17 + sc_skip, "picture.decode_picture.std_psc: the stuffing reported by the start-code search and the 17 start-code bits are skipped");
        }
        if plus && made >= 6 {
            let want_prev = if has_prev { prev_opts & 0x1FFFF } else { 0 };
            assert!(unsafe { ST.arg_plus_dec } == dec_bits && unsafe { ST.arg_plus_prev } == want_prev, "picture.decode_picture.std_plusptype_args: PLUSPTYPE inherits from the previous header's options (none: the empty set)");
        }
        match res {
            Err(e) => {
                assert!(fail_at < n, "picture.decode_picture.std_err: decode_picture fails only when a field or a read fails");
                core::mem::forget(e);
            }
            Ok(None) => assert!(false, "picture.decode_picture.std_some: a picture header yields a header record"),
            Ok(Some(p)) => {
                assert!(fail_at >= n, "picture.decode_picture.std_err_propagates: a failing field parser fails the header");
                let tr = vals[1] as u32;
                let (want_tr, want_q) = if clock { (((vals[2] as u32) << 8) | tr, vals[3]) } else { (tr, vals[2]) };
                assert!(p.version.is_none() && p.temporal_reference as u32 == want_tr, "picture.decode_picture.std_tr: TR, extended by ETR as the two high bits when a custom picture clock is signalled");
                assert!(p.quantizer == want_q, "picture.decode_picture.std_pquant: PQUANT is the five-bit field read after the optional fields");
                assert!(p.format == fmt, "picture.decode_picture.std_format: PTYPE / PLUSPTYPE source format, replaced by CPFMT when a custom format follows");
                assert!(p.options.bits() == opts, "picture.decode_picture.std_options: PTYPE options united with the PLUSPTYPE options");
                assert!(p.has_plusptype == plus && p.has_opptype == (plus && unsafe { ST.pp_hasopp }), "picture.decode_picture.std_plus_flags");
                assert!(type_code(&p.picture_type) == ptype_code, "picture.decode_picture.std_type: picture coding type from PTYPE, from MPPTYPE when PLUSPTYPE is present");
                let want_uui = plus && follow & 4 != 0;
                let got_uui = match &p.motion_vector_range {
                    Some(MotionVectorRange::Extended) => 1,
                    Some(MotionVectorRange::Unlimited) => 2,
                    None => 0,
                };
                assert!(got_uui == if want_uui { 1 } else { 0 }, "picture.decode_picture.std_uui: the motion vector range of UUI exactly when PLUSPTYPE announces it");
                assert!(p.slice_submode.as_ref().map(|m| m.bits()) == if plus && follow & 8 != 0 { Some(2) } else { None }, "picture.decode_picture.std_sss");
                assert!(p.scalability_layer.as_ref().map(|l| (l.enhancement, l.reference)) == if dec_bits & 2 != 0 { Some((9, Some(4))) } else { None }, "picture.decode_picture.std_layer");
                if dec_bits & 2 != 0 {
                    assert!(unsafe { ST.arg_elnum_follow } == if plus { follow } else { 0 }, "picture.decode_picture.std_elnum_args: RLNUM presence is decided by this header's PLUSPTYPE");
                }
                assert!(p.reference_picture_selection_mode.as_ref().map(|m| m.bits()) == if plus && follow & 32 != 0 { Some(2) } else { None }, "picture.decode_picture.std_rpsmf");
                assert!(p.prediction_reference == if rps && unsafe { ST.trp_some } { Some(unsafe { ST.trp }) } else { None }, "picture.decode_picture.std_trp");
                assert!(p.backchannel_message.is_none() && p.reference_picture_resampling.is_none(), "picture.decode_picture.std_bcm_rprp");
                let cpm = unsafe { ST.cpm_a };
                assert!(p.multiplex_bitstream == if cpm & 4 == 4 { Some(cpm & 3) } else { None }, "picture.decode_picture.std_cpm: CPM/PSBI from its single occurrence (after PLUSPTYPE, else after PQUANT)");
                assert!(p.pb_reference == if pb { Some(unsafe { ST.trb }) } else { None } && matches!(p.pb_quantizer, Some(BPictureQuantizer::Seven)) == pb && p.pb_quantizer.is_none() == !pb, "picture.decode_picture.std_trb_dbquant: TRB / DBQUANT exactly for PB and Improved PB pictures");
                if pb {
                    assert!(unsafe { ST.arg_trb_pclk } == clock as u8, "picture.decode_picture.std_trb_args: TRB is five bits wide exactly when a custom picture clock is signalled in this header");
                }
                assert!(p.extra.is_empty(), "picture.decode_picture.std_pei");
                kani::cover!(true, "reach_end");
                core::mem::forget(p);
            }
        }
    }
}
