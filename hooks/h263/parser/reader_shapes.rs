// shape!(name, harness fn, generics...)  — generated together with reader_replay_arms.rs and read by tools/registry.py (tier in the trailing comment)
shape!(read_u32_t4_b0_p0, h_read_u32, 4, 0, 0, 32); // quick
shape!(read_u32_t4_b1_p0, h_read_u32, 4, 1, 0, 32); // thorough
shape!(read_u32_t4_b1_p1, h_read_u32, 4, 1, 1, 32); // thorough
shape!(read_u32_t4_b1_p2, h_read_u32, 4, 1, 2, 32); // thorough
shape!(read_u32_t4_b1_p3, h_read_u32, 4, 1, 3, 32); // thorough
shape!(read_u32_t4_b1_p4, h_read_u32, 4, 1, 4, 32); // thorough
shape!(read_u32_t4_b1_p5, h_read_u32, 4, 1, 5, 32); // quick
shape!(read_u32_t4_b1_p6, h_read_u32, 4, 1, 6, 32); // thorough
shape!(read_u32_t4_b1_p7, h_read_u32, 4, 1, 7, 32); // thorough
shape!(read_u32_t4_b1_p8, h_read_u32, 4, 1, 8, 32); // thorough
shape!(read_u32_t4_b2_p0, h_read_u32, 4, 2, 0, 32); // thorough
shape!(read_u32_t4_b2_p1, h_read_u32, 4, 2, 1, 32); // thorough
shape!(read_u32_t4_b2_p2, h_read_u32, 4, 2, 2, 32); // thorough
shape!(read_u32_t4_b2_p3, h_read_u32, 4, 2, 3, 32); // thorough
shape!(read_u32_t4_b2_p4, h_read_u32, 4, 2, 4, 32); // thorough
shape!(read_u32_t4_b2_p5, h_read_u32, 4, 2, 5, 32); // thorough
shape!(read_u32_t4_b2_p6, h_read_u32, 4, 2, 6, 32); // thorough
shape!(read_u32_t4_b2_p7, h_read_u32, 4, 2, 7, 32); // thorough
shape!(read_u32_t4_b2_p8, h_read_u32, 4, 2, 8, 32); // thorough
shape!(read_u32_t4_b2_p9, h_read_u32, 4, 2, 9, 32); // thorough
shape!(read_u32_t4_b2_p10, h_read_u32, 4, 2, 10, 32); // thorough
shape!(read_u32_t4_b2_p11, h_read_u32, 4, 2, 11, 32); // thorough
shape!(read_u32_t4_b2_p12, h_read_u32, 4, 2, 12, 32); // thorough
shape!(read_u32_t4_b2_p13, h_read_u32, 4, 2, 13, 32); // quick
shape!(read_u32_t4_b2_p14, h_read_u32, 4, 2, 14, 32); // thorough
shape!(read_u32_t4_b2_p15, h_read_u32, 4, 2, 15, 32); // thorough
shape!(read_u32_t4_b2_p16, h_read_u32, 4, 2, 16, 32); // thorough
shape!(read_u32_t4_b4_p0, h_read_u32, 4, 4, 0, 32); // thorough
shape!(read_u32_t4_b4_p5, h_read_u32, 4, 4, 5, 32); // thorough
shape!(read_u32_t4_b4_p13, h_read_u32, 4, 4, 13, 32); // thorough
shape!(read_u32_t4_b4_p24, h_read_u32, 4, 4, 24, 32); // thorough
shape!(read_u32_t4_b4_p31, h_read_u32, 4, 4, 31, 32); // thorough
shape!(read_u32_t4_b4_p32, h_read_u32, 4, 4, 32, 32); // thorough
shape!(read_u32_t3_b0_p0, h_read_u32, 3, 0, 0, 32); // thorough
shape!(read_u32_t3_b1_p3, h_read_u32, 3, 1, 3, 32); // quick
shape!(read_u32_t3_b2_p9, h_read_u32, 3, 2, 9, 32); // thorough
shape!(read_u32_t3_b3_p24, h_read_u32, 3, 3, 24, 32); // thorough
shape!(read_narrow_t4_b0_p0, h_read_narrow, 4, 0, 0); // thorough
shape!(read_narrow_t4_b1_p3, h_read_narrow, 4, 1, 3); // quick
shape!(read_narrow_t4_b2_p9, h_read_narrow, 4, 2, 9); // thorough
shape!(read_narrow_t4_b4_p20, h_read_narrow, 4, 4, 20); // thorough
shape!(read_narrow_t3_b2_p11, h_read_narrow, 3, 2, 11); // quick
shape!(start_code_t4_b0_p0, h_start_code, 4, 0, 0); // quick
shape!(start_code_t4_b1_p1, h_start_code, 4, 1, 1); // thorough
shape!(start_code_t4_b2_p7, h_start_code, 4, 2, 7); // quick
shape!(start_code_t4_b4_p8, h_start_code, 4, 4, 8); // quick
shape!(start_code_t4_b4_p15, h_start_code, 4, 4, 15); // thorough
shape!(start_code_t4_b2_p16, h_start_code, 4, 2, 16); // thorough
shape!(start_code_t4_b3_p5, h_start_code, 4, 3, 5); // thorough
shape!(start_code_t3_b1_p2, h_start_code, 3, 1, 2); // thorough
shape!(transactions_t4_b1_p3_n0, h_transactions, 4, 1, 3, 0); // thorough
shape!(transactions_t4_b1_p3_n5, h_transactions, 4, 1, 3, 5); // thorough
shape!(transactions_t4_b1_p3_n9, h_transactions, 4, 1, 3, 9); // quick
shape!(transactions_t4_b0_p0_n17, h_transactions, 4, 0, 0, 17); // thorough
shape!(transactions_t4_b2_p11_n17, h_transactions, 4, 2, 11, 17); // thorough
shape!(transactions_t3_b1_p12_n17, h_transactions, 3, 1, 12, 17); // quick
shape!(transactions_t4_b4_p30_n5, h_transactions, 4, 4, 30, 5); // thorough
shape!(commit_t4_b2_p0, h_commit, 4, 2, 0); // thorough
shape!(commit_t4_b2_p8, h_commit, 4, 2, 8); // thorough
shape!(commit_t4_b4_p8, h_commit, 4, 4, 8); // quick
shape!(commit_t4_b4_p16, h_commit, 4, 4, 16); // quick
shape!(commit_t4_b3_p13, h_commit, 4, 3, 13); // quick
shape!(commit_t4_b4_p32, h_commit, 4, 4, 32); // thorough
shape!(commit_t4_b1_p5, h_commit, 4, 1, 5); // thorough
shape!(commit_t4_b4_p3, h_commit, 4, 4, 3); // thorough
shape!(vlc_t4_b0_p0, h_vlc, 4, 0, 0); // thorough
shape!(vlc_t4_b1_p6, h_vlc, 4, 1, 6); // quick
shape!(vlc_t4_b4_p29, h_vlc, 4, 4, 29); // quick
shape!(vlc_t4_b2_p13, h_vlc, 4, 2, 13); // thorough
shape!(vlc_t4_b4_p31, h_vlc, 4, 4, 31); // thorough
shape!(append_f0_n8, h_append, 0, 8); // thorough
shape!(append_f1_n17, h_append, 1, 17); // quick
shape!(append_f2_n17, h_append, 2, 17); // thorough
shape!(append_f2_n24, h_append, 2, 24); // quick
shape!(append_f3_n32, h_append, 3, 32); // thorough
shape!(append_f1_n32, h_append, 1, 32); // thorough
shape!(append_f1_n8, h_append, 1, 8); // thorough
