// C02 / C03 / C04: the ASSEMBLY obligation of decode_macroblock (H.263 5.3, Figure 9 - the macroblock layer): which syntax element is read,
// in which order, from which table, under which presence condition, and where its value goes in the Macroblock record - proved modularly.
// The reader operations (read_bits, read_vlc) and the sub-parsers (decode_dquant, decode_motion_vector, decode_cbpb) are replaced by
// contract stubs that log the call; read_vlc returns the leaf at a symbolic slot of the table it is given (so every code word of the real
// table, valid, invalid or stuffing, is covered) and the harness compares with the Recommendation:
//   COD (predicted pictures only; 1 = not coded)  MCBPC (Table 7 for I pictures, Table 8 for P pictures - disposable P pictures included)
//   CBPY (Table 13; the complement for INTER types)  DQUANT (types with Q)  MVD (INTER types)  MVD2-4 (four-vector types).
// Loop-free; complete over picture types, every table slot, and failing positions. (The tables' contents are harness `mb_tables`; the
// sub-parsers and the reader are proved in their own units / C14.) Modified-quantization mode (Annex T) is not implemented by the decoder
// and is excluded here.
#[cfg(kani)]
pub mod mbasm {
    use super::*;

    pub const T_COD: u8 = 1;
    pub const T_MCBPC_I: u8 = 2;
    pub const T_MCBPC_P: u8 = 3;
    pub const T_CBPY: u8 = 4;
    pub const T_DQUANT: u8 = 5;
    pub const T_MVD: u8 = 6;
    pub const T_OTHER: u8 = 99;

    // one static with a magic first field (see DESIGN.md: Kani merges constants with same-valued `static mut` items)
    pub struct St {
        pub magic: u64,
        pub log: [u8; 12],
        pub nlog: usize,
        pub fail_at: usize,
        pub cod: u8,
        pub slot_mcbpc: usize,
        pub slot_cbpy: usize,
        pub dquant: i8,
        pub nmv: u8,
    }
    pub static mut ST: St = St { magic: 0x0DD_BA11_5EED_CAFE, log: [0; 12], nlog: 0, fail_at: 99, cod: 0, slot_mcbpc: 0, slot_cbpy: 0, dquant: 0, nmv: 0 };

    fn log(tag: u8) -> bool {
        unsafe {
            let k = ST.nlog;
            if k < 12 {
                ST.log[k] = tag;
            }
            ST.nlog = k + 1;
            k == ST.fail_at
        }
    }
    pub fn mv_tag(k: u8) -> MotionVector {
        (HalfPel::from_unit(10 + k as i16), HalfPel::from_unit(-20 - k as i16)).into()
    }
    pub fn mv_is(m: &MotionVector, k: u8) -> bool {
        let (x, y): (HalfPel, HalfPel) = (*m).into();
        x == HalfPel::from_unit(10 + k as i16) && y == HalfPel::from_unit(-20 - k as i16)
    }

    impl<R: Read> H263Reader<R> {
        pub fn verif_mb_read_bits<T: crate::traits::BitReadable>(&mut self, n: u32) -> Result<T> {
            if log(if n == 1 { T_COD } else { T_OTHER }) {
                return Err(Error::InvalidBitstream);
            }
            unsafe { Ok(T::from(ST.cod)) }
        }
        pub fn verif_mb_read_vlc<T: Clone>(&mut self, table: &crate::parser::vlc::Table<T>) -> Result<T> {
            // the table is identified by its length (21: MCBPC I, 53: MCBPC P, 33: CBPY)
            let (tag, slot) = unsafe {
                match table.len() {
                    21 => (T_MCBPC_I, ST.slot_mcbpc),
                    53 => (T_MCBPC_P, ST.slot_mcbpc),
                    33 => (T_CBPY, ST.slot_cbpy),
                    _ => (T_OTHER, 0),
                }
            };
            if log(tag) {
                return Err(Error::InvalidBitstream);
            }
            match table.get(slot) {
                Some(Entry::End(t)) => Ok(t.clone()),
                _ => Err(Error::InternalDecoderError),
            }
        }
    }
    pub fn s_dquant<R: Read>(_r: &mut H263Reader<R>) -> Result<i8> {
        if log(T_DQUANT) {
            return Err(Error::InvalidBitstream);
        }
        unsafe { Ok(ST.dquant) }
    }
    pub fn s_mv<R: Read>(_r: &mut H263Reader<R>, _p: &Picture, _o: PictureOption) -> Result<MotionVector> {
        if log(T_MVD) {
            return Err(Error::InvalidBitstream);
        }
        unsafe {
            ST.nmv += 1;
            Ok(mv_tag(ST.nmv))
        }
    }
    pub fn s_cbpb<R: Read>(_r: &mut H263Reader<R>) -> Result<CodedBlockPattern> {
        let _ = log(T_OTHER);
        Err(Error::InvalidBitstream)
    }

    fn blank_picture(t: PictureTypeCode) -> Picture {
        Picture {
            version: None, temporal_reference: 0, format: None, options: PictureOption::empty(), has_plusptype: false, has_opptype: false, picture_type: t,
            motion_vector_range: None, slice_submode: None, scalability_layer: None, reference_picture_selection_mode: None, prediction_reference: None,
            backchannel_message: None, reference_picture_resampling: None, quantizer: 1, multiplex_bitstream: None, pb_reference: None, pb_quantizer: None, extra: Vec::new(),
        }
    }

    pub fn mb_assembly<const INJECT: bool>() {
        let ptc: u8 = kani::any();
        kani::assume(ptc < 3);
        let ptype = match ptc {
            0 => PictureTypeCode::IFrame,
            1 => PictureTypeCode::PFrame,
            _ => PictureTypeCode::DisposablePFrame,
        };
        let pic = blank_picture(ptype);
        let opts_bits: u32 = kani::any();
        let opts = PictureOption::from_bits_truncate(opts_bits);
        kani::assume(!opts.contains(PictureOption::MODIFIED_QUANTIZATION));
        unsafe {
            ST.fail_at = if INJECT { kani::any() } else { 99 };
            ST.cod = kani::any();
            kani::assume(ST.cod < 2);
            ST.slot_mcbpc = kani::any();
            kani::assume(ST.slot_mcbpc < 53);
            ST.slot_cbpy = kani::any();
            kani::assume(ST.slot_cbpy < 33);
            ST.dquant = kani::any();
        }
        let all = [0u8; 2];
        let mut rd = H263Reader::from_source(&all[..]);
        let res = decode_macroblock(&mut rd, &pic, opts);
        core::mem::forget(pic);

        // ---- H.263 5.3 ---------------------------------------------------------------------------------------------------------------
        let (cod, sm, sc, fail_at, nlog) = unsafe { (ST.cod, ST.slot_mcbpc, ST.slot_cbpy, ST.fail_at, ST.nlog) };
        let intra_pic = ptc == 0;
        let mut exp: [u8; 12] = [0; 12];
        let mut n = 0;
        macro_rules! push {
            ($t:expr) => {{
                exp[n] = $t;
                n += 1;
            }};
        }
        // outcome classes: 0 Coded, 1 Uncoded, 2 Stuffing, 3 error
        let mut outcome = 0;
        let mut mbt: Option<(MacroblockType, bool, bool)> = None;
        let mut luma: Option<[bool; 4]> = None;
        if !intra_pic {
            push!(T_COD);
        }
        if !intra_pic && cod == 1 {
            outcome = 1;
        } else {
            push!(if intra_pic { T_MCBPC_I } else { T_MCBPC_P });
            let entry: Option<BlockPatternEntry> = if intra_pic {
                match MCBPC_I_TABLE.get(sm) {
                    Some(Entry::End(e)) => Some(*e),
                    _ => None,
                }
            } else {
                match MCBPC_P_TABLE.get(sm) {
                    Some(Entry::End(e)) => Some(*e),
                    _ => None,
                }
            };
            match entry {
                None | Some(BlockPatternEntry::Invalid) => outcome = 3,
                Some(BlockPatternEntry::Stuffing) => outcome = 2,
                Some(BlockPatternEntry::Valid(t, cb, cr)) => {
                    mbt = Some((t, cb, cr));
                    push!(T_CBPY);
                    match CBPY_TABLE_INTRA.get(sc) {
                        Some(Entry::End(Some(b))) => {
                            luma = Some(if t.is_intra() { *b } else { [!b[0], !b[1], !b[2], !b[3]] });
                            if matches!(t, MacroblockType::InterQ | MacroblockType::IntraQ | MacroblockType::Inter4Vq) {
                                push!(T_DQUANT);
                            }
                            if matches!(t, MacroblockType::Inter | MacroblockType::InterQ | MacroblockType::Inter4V | MacroblockType::Inter4Vq) {
                                push!(T_MVD);
                            }
                            if matches!(t, MacroblockType::Inter4V | MacroblockType::Inter4Vq) {
                                push!(T_MVD);
                                push!(T_MVD);
                                push!(T_MVD);
                            }
                        }
                        _ => outcome = 3,
                    }
                }
            }
        }
        let made = if fail_at < n { fail_at + 1 } else { n };
        assert!(nlog == made, "macroblock.decode_macroblock.order_len: exactly the syntax elements of H.263 5.3 for this picture type and macroblock type are read (up to the first failing one)");
        let mut k = 0;
        let mut same = true;
        while k < 12 {
            if k < made && unsafe { ST.log[k] } != exp[k] {
                same = false;
            }
            k += 1;
        }
        assert!(same, "macroblock.decode_macroblock.order: COD (predicted pictures) MCBPC (Table 7 in I pictures, Table 8 in P and disposable P pictures) CBPY DQUANT MVD MVD2-4, in this order");
        match res {
            Err(e) => {
                assert!(fail_at < n || outcome == 3, "macroblock.decode_macroblock.err: fails only when an element fails or the code word is invalid");
                core::mem::forget(e);
            }
            Ok(m) => {
                assert!(fail_at >= n && outcome != 3, "macroblock.decode_macroblock.err_propagates: an invalid code word or a failing element fails the macroblock");
                match &m {
                    Macroblock::Uncoded => assert!(outcome == 1, "macroblock.decode_macroblock.uncoded: not coded exactly when COD = 1 in a predicted picture"),
                    Macroblock::Stuffing => assert!(outcome == 2, "macroblock.decode_macroblock.stuffing: stuffing exactly for the MCBPC stuffing code word"),
                    Macroblock::Coded { mb_type, coded_block_pattern, coded_block_pattern_b, d_quantizer, motion_vector, addl_motion_vectors, motion_vectors_b } => {
                        assert!(outcome == 0, "macroblock.decode_macroblock.coded");
                        let (t, cb, cr) = mbt.unwrap();
                        assert!(*mb_type == t && coded_block_pattern.codes_chroma_b == cb && coded_block_pattern.codes_chroma_r == cr, "macroblock.decode_macroblock.mcbpc: macroblock type and chroma pattern are the MCBPC code word's");
                        assert!(coded_block_pattern.codes_luma == luma.unwrap(), "macroblock.decode_macroblock.cbpy: the luminance pattern of the CBPY code word for INTRA types, its complement for INTER types");
                        let q = matches!(t, MacroblockType::InterQ | MacroblockType::IntraQ | MacroblockType::Inter4Vq);
                        assert!(*d_quantizer == if q { Some(unsafe { ST.dquant }) } else { None }, "macroblock.decode_macroblock.dquant: DQUANT exactly for the types with Q");
                        let inter = !t.is_intra();
                        let four = matches!(t, MacroblockType::Inter4V | MacroblockType::Inter4Vq);
                        assert!(motion_vector.is_some() == inter && (!inter || mv_is(motion_vector.as_ref().unwrap(), 1)), "macroblock.decode_macroblock.mvd: one vector difference for INTER types, none for INTRA types");
                        assert!(addl_motion_vectors.is_some() == four, "macroblock.decode_macroblock.mvd24_presence: MVD2-4 exactly for the four-vector types");
                        if four {
                            let a = addl_motion_vectors.as_ref().unwrap();
                            assert!(mv_is(&a[0], 2) && mv_is(&a[1], 3) && mv_is(&a[2], 4), "macroblock.decode_macroblock.mvd24_order: MVD2, MVD3, MVD4 in bitstream order");
                        }
                        assert!(coded_block_pattern_b.is_none() && motion_vectors_b.is_none(), "macroblock.decode_macroblock.no_b_part: no B-block fields outside PB frames");
                    }
                }
                kani::cover!(true, "reach_end");
                core::mem::forget(m);
            }
        }
    }
}
