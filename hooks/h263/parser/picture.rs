// Hook module of h263/src/parser/picture.rs.  Property C06.
//  * Kani: the lazy_static / bitflags facts the Verus picture unit assumes (R6, A-BITFLAGS)
//  * native (witness search and the part of C06 Verus does not prove - the assembly of the standard header record): a header ENCODER
//    written from H.263 5.1 / the Sorenson Spark layout; every field value is drawn from the witness bytes, encoded, parsed by the real
//    decode_picture and compared field by field, together with the number of bits consumed.
#![allow(dead_code, unused_imports)]
use super::*;

include!("/verif/hooks/common.rs");

fn h_option_mask<S: Src>(s: &mut S) {
    chk!(s, (*OPPTYPE_OPTIONS).bits() == 0x1FF8, "picture.OPPTYPE_OPTIONS.value: bits 3..=12");
    s.reach();
}
fn h_bitflags_model2<S: Src>(s: &mut S) {
    let (a, b) = (s.u8() & 0x3F, s.u8() & 0x3F);
    let (fa, fb) = (PlusPTypeFollower::from_bits_truncate(a), PlusPTypeFollower::from_bits_truncate(b));
    let mut acc = fa;
    acc |= fb;
    chk!(s, acc.bits() == (a | b) && (fa | fb).bits() == (a | b) && fa.contains(fb) == (a & b == b) && PlusPTypeFollower::empty().bits() == 0, "bitflags.PlusPTypeFollower: |, |=, contains, empty");
    chk!(s, PlusPTypeFollower::HAS_CUSTOM_FORMAT.bits() == 1 && PlusPTypeFollower::HAS_CUSTOM_CLOCK.bits() == 2 && PlusPTypeFollower::HAS_MOTION_VECTOR_RANGE.bits() == 4
            && PlusPTypeFollower::HAS_SLICE_STRUCTURED_SUBMODE.bits() == 8 && PlusPTypeFollower::HAS_REFERENCE_LAYER_NUMBER.bits() == 16 && PlusPTypeFollower::HAS_REFERENCE_PICTURE_SELECTION_MODE.bits() == 32,
         "bitflags.PlusPTypeFollower.constants");
    let mut sm = SliceSubmode::empty();
    sm |= SliceSubmode::RECTANGULAR_SLICES;
    chk!(s, sm.bits() == 1 && SliceSubmode::ARBITRARY_ORDER.bits() == 2 && SliceSubmode::empty().bits() == 0, "bitflags.SliceSubmode");
    let mut rm = ReferencePictureSelectionMode::empty();
    rm |= ReferencePictureSelectionMode::REQUEST_ACKNOWLEDGEMENT;
    chk!(s, rm.bits() == 4 && ReferencePictureSelectionMode::RESERVED.bits() == 1 && ReferencePictureSelectionMode::REQUEST_NEGATIVE_ACKNOWLEDGEMENT.bits() == 2, "bitflags.ReferencePictureSelectionMode");
    s.reach();
}

// ---------------------------------------------------------------------------------------------------------------------------------
#[cfg(not(kani))]
struct Bw {
    buf: Vec<u8>,
    pos: usize,
}
#[cfg(not(kani))]
impl Bw {
    fn put(&mut self, val: u32, n: usize) {
        for k in 0..n {
            if self.pos / 8 >= self.buf.len() {
                self.buf.push(0);
            }
            let bit = ((val >> (n - 1 - k)) & 1) as u8;
            self.buf[self.pos / 8] |= bit << (7 - (self.pos % 8));
            self.pos += 1;
        }
    }
}
#[cfg(not(kani))]
fn blank(options: PictureOption, format: Option<SourceFormat>) -> Picture {
    Picture {
        version: None, temporal_reference: 0, format, options, has_plusptype: true, has_opptype: false, picture_type: PictureTypeCode::PFrame,
        motion_vector_range: None, slice_submode: None, scalability_layer: None, reference_picture_selection_mode: None, prediction_reference: None,
        backchannel_message: None, reference_picture_resampling: None, quantizer: 1, multiplex_bitstream: None, pb_reference: None, pb_quantizer: None, extra: Vec::new(),
    }
}
#[cfg(not(kani))]
fn type_name(t: &PictureTypeCode) -> String {
    format!("{:?}", t)
}

// standard H.263 header: encode per 5.1, parse, compare
#[cfg(not(kani))]
fn h_hdr_std_dyn(s: &mut RSrc) {
    let mut bw = Bw { buf: Vec::new(), pos: 0 };
    // k bits of a preceding picture are consumed first; then fewer than eight zero stuffing bits up to the byte boundary
    let stuffing = (s.u8() % 8) as usize;
    let lead = (8 - stuffing) % 8;
    bw.put(0xFF, lead);
    bw.put(0, stuffing);
    bw.put(1, 17); // 0000 0000 0000 0000 1
    bw.put(0, 5);
    let tr = s.u8() as u32;
    bw.put(tr, 8);
    // PTYPE
    let (split, doc, freeze) = (s.bool(), s.bool(), s.bool());
    bw.put(1, 1);
    bw.put(0, 1);
    bw.put(split as u32, 1);
    bw.put(doc as u32, 1);
    bw.put(freeze as u32, 1);
    let scal = s.bool();
    let use_plus = s.u8() % 3 != 0;
    let mut exp_opts: u32 = (split as u32) | (doc as u32) << 1 | (freeze as u32) << 2;
    let exp_format: Option<SourceFormat>;
    let exp_type: String;
    let mut exp_mvr: Option<bool> = None; // Some(true) = Extended
    let mut exp_sss: Option<u8> = None;
    let mut exp_layer: Option<(u8, Option<u8>)> = None;
    let mut exp_rpsm: Option<u8> = None;
    let mut exp_pref: Option<u16> = None;
    let exp_mux: Option<u8>;
    let mut exp_tr = tr as u16;
    let mut has_opp = false;
    let mut pcf = false;
    let mut prev: Option<Picture> = None;
    let mut rps_in_force = false;
    let is_pb: bool;
    let fmt_of = |c: u32| match c {
        1 => SourceFormat::SubQcif,
        2 => SourceFormat::QuarterCif,
        3 => SourceFormat::FullCif,
        4 => SourceFormat::FourCif,
        5 => SourceFormat::SixteenCif,
        _ => SourceFormat::Reserved,
    };
    if !use_plus {
        let src = 1 + (s.u8() % 6) as u32; // 001..110
        bw.put(src, 3);
        let inter = s.bool();
        let (umv, sac, ap, pb) = (s.bool(), s.bool(), s.bool(), s.bool());
        bw.put(inter as u32, 1); // bit 9: 0 INTRA, 1 INTER
        bw.put(umv as u32, 1);
        bw.put(sac as u32, 1);
        bw.put(ap as u32, 1);
        bw.put(pb as u32, 1);
        exp_opts |= (umv as u32) << 3 | (sac as u32) << 4 | (ap as u32) << 5;
        exp_format = Some(fmt_of(src));
        exp_type = if pb { "PbFrame".into() } else if inter { "PFrame".into() } else { "IFrame".into() };
        is_pb = pb;
    } else {
        bw.put(7, 3);
        let ufep = s.bool();
        bw.put(ufep as u32, 3);
        let mut custom = false;
        if ufep {
            has_opp = true;
            let src = (s.u8() % 8) as u32;
            bw.put(src, 3);
            custom = src == 6;
            pcf = s.bool();
            bw.put(pcf as u32, 1);
            let flags: [bool; 10] = [s.bool(), s.bool(), s.bool(), s.bool(), s.bool(), s.bool(), s.bool(), s.bool(), s.bool(), false /* MQ makes nothing here but keep 0 */];
            for (i, f) in flags.iter().enumerate() {
                bw.put(*f as u32, 1);
                exp_opts |= (*f as u32) << (3 + i);
            }
            bw.put(0b1000, 4);
            exp_format = if custom { None } else { Some(fmt_of(if src == 0 || src == 7 { 6 } else { src })) };
            rps_in_force = flags[6];
        } else {
            // inherited OPPTYPE modes from the previous header (no RPR / format so that no resampling is demanded)
            let pb = (s.u16() as u32 & 0x1FF8) & !0x200u32 | if s.bool() { 0x200 } else { 0 };
            prev = Some(blank(PictureOption::from_bits_truncate(pb | 0x7), None));
            exp_opts |= pb;
            exp_format = None;
            rps_in_force = pb & 0x200 != 0;
        }
        let tcode = (s.u8() % 8) as u32;
        bw.put(tcode, 3);
        let (rru, rtype) = (s.bool(), s.bool());
        bw.put(0, 1); // RPR off (RPRP is not implemented)
        bw.put(rru as u32, 1);
        bw.put(rtype as u32, 1);
        bw.put(0b001, 3);
        exp_opts |= (rru as u32) << 14 | (rtype as u32) << 15;
        exp_type = match tcode {
            0 => "IFrame".into(),
            1 => "PFrame".into(),
            2 => "ImprovedPbFrame".into(),
            3 => "BFrame".into(),
            4 => "EiFrame".into(),
            5 => "EpFrame".into(),
            r => format!("Reserved({})", r),
        };
        is_pb = tcode == 2;
        // CPM / PSBI
        let cpm = s.bool();
        bw.put(cpm as u32, 1);
        let psbi = (s.u8() % 4) as u32;
        if cpm {
            bw.put(psbi, 2);
        }
        let mux_early = if cpm { Some(psbi as u8) } else { None };
        let mut fmt_custom: Option<SourceFormat> = None;
        if ufep && custom {
            let par = 1 + (s.u8() % 15) as u32;
            let pwi = (s.u16() % 512) as u32;
            let phi = (s.u16() % 512) as u32;
            bw.put(par, 4);
            bw.put(pwi, 9);
            bw.put(1, 1);
            bw.put(phi, 9);
            let par_v = match par {
                1 => PixelAspectRatio::Square,
                2 => PixelAspectRatio::Par12_11,
                3 => PixelAspectRatio::Par10_11,
                4 => PixelAspectRatio::Par16_11,
                5 => PixelAspectRatio::Par40_33,
                15 => {
                    let (pw, ph) = (1 + s.u8() % 255, 1 + s.u8() % 255);
                    bw.put(pw as u32, 8);
                    bw.put(ph as u32, 8);
                    PixelAspectRatio::Extended { par_width: pw, par_height: ph }
                }
                r => PixelAspectRatio::Reserved(r as u8),
            };
            fmt_custom = Some(SourceFormat::Extended(CustomPictureFormat { pixel_aspect_ratio: par_v, picture_width_indication: ((pwi + 1) * 4) as u16, picture_height_indication: (phi * 4) as u16 }));
        }
        let umv_now = ufep && exp_opts & 0x8 != 0;
        let ss_now = ufep && exp_opts & 0x100 != 0;
        let rps_now = ufep && exp_opts & 0x200 != 0;
        if ufep && pcf {
            let c = s.u8();
            bw.put(c as u32, 8);
            let etr = (s.u8() % 4) as u32;
            bw.put(etr, 2);
            exp_tr = (etr << 8) as u16 | tr as u16;
        }
        if umv_now {
            let limited = s.bool();
            if limited {
                bw.put(1, 1);
            } else {
                bw.put(0b01, 2);
            }
            exp_mvr = Some(limited);
        }
        if ss_now {
            let (rect, arb) = (s.bool(), s.bool());
            bw.put(rect as u32, 1); // SSS bit 1: rectangular slices
            bw.put(arb as u32, 1); // SSS bit 2: arbitrary slice ordering
            exp_sss = Some(rect as u8 | (arb as u8) << 1);
        }
        if scal {
            let el = s.u8() % 16;
            bw.put(el as u32, 4);
            let rl = s.u8() % 16;
            if ufep {
                bw.put(rl as u32, 4);
            }
            exp_layer = Some((el, if ufep { Some(rl) } else { None }));
        }
        if rps_now {
            let (b1, nack, ack) = (s.bool(), s.bool(), s.bool());
            bw.put(b1 as u32, 1);
            bw.put(nack as u32, 1);
            bw.put(ack as u32, 1);
            exp_rpsm = Some((!b1) as u8 | (nack as u8) << 1 | (ack as u8) << 2);
        }
        if rps_in_force {
            let trpi = s.bool();
            bw.put(trpi as u32, 1);
            if trpi {
                let trp = s.u16() % 1024;
                bw.put(trp as u32, 10);
                exp_pref = Some(trp);
            }
            bw.put(0b01, 2); // BCI: no back-channel message
        }
        let q = s.u8() % 32;
        bw.put(q as u32, 5);
        finish_std(s, bw, stuffing, scal, prev, exp_tr, if ufep && custom { fmt_custom } else { exp_format }, exp_opts, true, has_opp, exp_type, exp_mvr, exp_sss, exp_layer, exp_rpsm, exp_pref, q, mux_early, false, is_pb, pcf);
        return;
    }
    if scal {
        // 5.1.11: ELNUM is present whenever the scalability mode is in use (RLNUM only with UFEP = 001)
        let el = s.u8() % 16;
        bw.put(el as u32, 4);
        exp_layer = Some((el, None));
    }
    let q = s.u8() % 32;
    bw.put(q as u32, 5);
    let cpm = s.bool();
    bw.put(cpm as u32, 1);
    let psbi = (s.u8() % 4) as u32;
    if cpm {
        bw.put(psbi, 2);
    }
    exp_mux = if cpm { Some(psbi as u8) } else { None };
    finish_std(s, bw, stuffing, scal, prev, exp_tr, exp_format, exp_opts, false, false, exp_type, exp_mvr, exp_sss, exp_layer, exp_rpsm, exp_pref, q, exp_mux, true, is_pb, false);
}

#[cfg(not(kani))]
#[allow(clippy::too_many_arguments)]
fn finish_std(s: &mut RSrc, mut bw: Bw, stuffing: usize, scal: bool, prev: Option<Picture>, exp_tr: u16, exp_format: Option<SourceFormat>, exp_opts: u32, has_plus: bool, has_opp: bool,
              exp_type: String, exp_mvr: Option<bool>, exp_sss: Option<u8>, exp_layer: Option<(u8, Option<u8>)>, exp_rpsm: Option<u8>, exp_pref: Option<u16>, q: u8, exp_mux: Option<u8>,
              _late_cpm: bool, is_pb: bool, pcf: bool) {
    let mut exp_pb: Option<(u8, u8)> = None;
    if is_pb {
        let n = if pcf { 5 } else { 3 };
        let trb = s.u8() % (1 << n);
        let dbq = s.u8() % 4;
        bw.put(trb as u32, n);
        bw.put(dbq as u32, 2);
        exp_pb = Some((trb, dbq));
    }
    let npei = (s.u8() % 3) as usize;
    let mut extra = Vec::new();
    for _ in 0..npei {
        let b = s.u8();
        bw.put(1, 1);
        bw.put(b as u32, 8);
        extra.push(b);
    }
    bw.put(0, 1);
    let end = bw.pos;
    bw.put(0xA5, 8); // trailing data that must not be consumed
    let _ = stuffing;
    let mut opts = DecoderOption::empty();
    if scal {
        opts |= DecoderOption::USE_SCALABILITY_MODE;
    }
    let mut reader = H263Reader::from_source(&bw.buf[..]);
    reader.skip_bits(((8 - stuffing) % 8) as u32).unwrap();
    let r = decode_picture(&mut reader, opts, prev.as_ref());
    match r {
        Ok(Some(p)) => {
            chk!(s, p.version.is_none() && p.temporal_reference == exp_tr, "picture.decode_picture.std_tr: temporal reference (with ETR as the two high bits)");
            chk!(s, p.format == exp_format, "picture.decode_picture.std_format: source format / custom picture format (PAR, width (PWI+1)*4, height PHI*4)");
            chk!(s, p.options.bits() == exp_opts, "picture.decode_picture.std_options: PTYPE / OPPTYPE / MPPTYPE option bits, inherited modes when UFEP = 000");
            chk!(s, p.has_plusptype == has_plus && p.has_opptype == has_opp, "picture.decode_picture.std_plus_flags");
            chk!(s, type_name(&p.picture_type) == exp_type, "picture.decode_picture.std_type: picture coding type (PTYPE bit 9: 0 INTRA, 1 INTER; MPPTYPE bits 1-3)");
            chk!(s, p.motion_vector_range.as_ref().map(|m| matches!(m, MotionVectorRange::Extended)) == exp_mvr, "picture.decode_picture.std_uui");
            chk!(s, p.slice_submode.as_ref().map(|m| m.bits()) == exp_sss, "picture.decode_picture.std_sss: SSS bit 1 rectangular slices, bit 2 arbitrary ordering");
            chk!(s, p.scalability_layer.as_ref().map(|l| (l.enhancement, l.reference)) == exp_layer, "picture.decode_picture.std_layer: ELNUM / RLNUM");
            chk!(s, p.reference_picture_selection_mode.as_ref().map(|m| m.bits()) == exp_rpsm, "picture.decode_picture.std_rpsmf");
            chk!(s, p.prediction_reference == exp_pref && p.backchannel_message.is_none() && p.reference_picture_resampling.is_none(), "picture.decode_picture.std_trp");
            chk!(s, p.quantizer == q && p.multiplex_bitstream == exp_mux, "picture.decode_picture.std_pquant_cpm");
            let pbq = p.pb_quantizer.as_ref().map(|x| match x {
                BPictureQuantizer::Five => 0u8,
                BPictureQuantizer::Six => 1,
                BPictureQuantizer::Seven => 2,
                BPictureQuantizer::Eight => 3,
            });
            chk!(s, p.pb_reference == exp_pb.map(|x| x.0) && pbq == exp_pb.map(|x| x.1), "picture.decode_picture.std_trb_dbquant");
            chk!(s, p.extra == extra, "picture.decode_picture.std_pei: extra-information bytes");
            let rest: u8 = reader.read_bits(8).unwrap_or(0);
            let _ = end;
            chk!(s, rest == 0xA5, "picture.decode_picture.std_len: exactly the header's bits are consumed");
        }
        Ok(None) => {
            chk!(s, false, "picture.decode_picture.std_accept: a valid header is not reported as 'not a picture'");
        }
        Err(e) => {
            if std::env::var("VERIF_DEBUG").is_ok() {
                println!("DEBUG std header rejected: {:?} scal={} has_plus={} has_opp={} type={} opts={:#x}", e, scal, has_plus, has_opp, exp_type, exp_opts);
            }
            chk!(s, false, "picture.decode_picture.std_accept: a valid header is parsed");
        }
    }
    s.reach();
}

// Sorenson Spark header
#[cfg(not(kani))]
fn h_hdr_sor_dyn(s: &mut RSrc) {
    let mut bw = Bw { buf: Vec::new(), pos: 0 };
    let stuffing = (s.u8() % 8) as usize;
    let lead = (8 - stuffing) % 8;
    bw.put(0xFF, lead);
    bw.put(0, stuffing);
    bw.put(1, 17);
    let ver = s.u8() % 32;
    bw.put(ver as u32, 5);
    let tr = s.u8();
    bw.put(tr as u32, 8);
    let code = s.u8() % 8;
    bw.put(code as u32, 3);
    let sq = |w: u16, h: u16| SourceFormat::Extended(CustomPictureFormat { pixel_aspect_ratio: PixelAspectRatio::Square, picture_width_indication: w, picture_height_indication: h });
    let fmt = match code {
        0 => {
            let (w, h) = (s.u8(), s.u8());
            bw.put(w as u32, 8);
            bw.put(h as u32, 8);
            sq(w as u16, h as u16)
        }
        1 => {
            let (w, h) = (s.u16(), s.u16());
            bw.put(w as u32, 16);
            bw.put(h as u32, 16);
            sq(w, h)
        }
        2 => SourceFormat::FullCif,
        3 => SourceFormat::QuarterCif,
        4 => SourceFormat::SubQcif,
        5 => sq(320, 240),
        6 => sq(160, 120),
        _ => SourceFormat::Reserved,
    };
    let t = s.u8() % 4;
    bw.put(t as u32, 2);
    let deblock = s.bool();
    bw.put(deblock as u32, 1);
    let q = s.u8() % 32;
    bw.put(q as u32, 5);
    let npei = (s.u8() % 3) as usize;
    let mut extra = Vec::new();
    for _ in 0..npei {
        let b = s.u8();
        bw.put(1, 1);
        bw.put(b as u32, 8);
        extra.push(b);
    }
    bw.put(0, 1);
    bw.put(0xA5, 8);
    let mut reader = H263Reader::from_source(&bw.buf[..]);
    reader.skip_bits(lead as u32).unwrap();
    match decode_picture(&mut reader, DecoderOption::SORENSON_SPARK_BITSTREAM, None) {
        Ok(Some(p)) => {
            let tn = match t {
                0 => "IFrame".to_string(),
                1 => "PFrame".into(),
                2 => "DisposablePFrame".into(),
                r => format!("Reserved({})", r),
            };
            chk!(s, p.version == Some(ver) && p.temporal_reference == tr as u16 && p.format == Some(fmt) && type_name(&p.picture_type) == tn, "picture.decode_picture.sorenson_fields: version, TR, size code / custom size, picture type");
            chk!(s, p.options.bits() == if deblock { 0x10000 } else { 0 } && p.quantizer == q && p.extra == extra && !p.has_plusptype, "picture.decode_picture.sorenson_fields2: deblocking flag, quantizer, extra information");
            let rest: u8 = reader.read_bits(8).unwrap_or(0);
            chk!(s, rest == 0xA5, "picture.decode_picture.sorenson_len: exactly the header's bits are consumed");
        }
        _ => {
            chk!(s, false, "picture.decode_picture.sorenson_accept: a valid header is parsed");
        }
    }
    s.reach();
}

include!("/verif/hooks/h263/parser/picture_assembly.rs");

#[cfg(kani)]
mod proofs {
    use super::*;
    #[kani::proof]
    #[kani::unwind(34)]
    #[kani::stub(H263Reader::recognize_start_code, H263Reader::verif_s_recognize)]
    #[kani::stub(H263Reader::skip_bits, H263Reader::verif_s_skip)]
    #[kani::stub(H263Reader::read_bits, H263Reader::verif_s_read_bits)]
    #[kani::stub(decode_ptype, asm::s_ptype)]
    #[kani::stub(decode_plusptype, asm::s_plusptype)]
    #[kani::stub(decode_cpm_and_psbi, asm::s_cpm)]
    #[kani::stub(decode_cpfmt, asm::s_cpfmt)]
    #[kani::stub(decode_cpcfc, asm::s_cpcfc)]
    #[kani::stub(decode_uui, asm::s_uui)]
    #[kani::stub(decode_sss, asm::s_sss)]
    #[kani::stub(decode_elnum_rlnum, asm::s_elnum)]
    #[kani::stub(decode_rpsmf, asm::s_rpsmf)]
    #[kani::stub(decode_trpi, asm::s_trpi)]
    #[kani::stub(decode_bcm, asm::s_bcm)]
    #[kani::stub(decode_rprp, asm::s_rprp)]
    #[kani::stub(decode_trb, asm::s_trb)]
    #[kani::stub(decode_dbquant, asm::s_dbquant)]
    #[kani::stub(decode_pei, asm::s_pei)]
    fn std_assembly() {
        asm::std_assembly::<false, 2>()
    }
    #[kani::proof]
    #[kani::unwind(34)]
    #[kani::stub(H263Reader::recognize_start_code, H263Reader::verif_s_recognize)]
    #[kani::stub(H263Reader::skip_bits, H263Reader::verif_s_skip)]
    #[kani::stub(H263Reader::read_bits, H263Reader::verif_s_read_bits)]
    #[kani::stub(decode_ptype, asm::s_ptype)]
    #[kani::stub(decode_plusptype, asm::s_plusptype)]
    #[kani::stub(decode_cpm_and_psbi, asm::s_cpm)]
    #[kani::stub(decode_cpfmt, asm::s_cpfmt)]
    #[kani::stub(decode_cpcfc, asm::s_cpcfc)]
    #[kani::stub(decode_uui, asm::s_uui)]
    #[kani::stub(decode_sss, asm::s_sss)]
    #[kani::stub(decode_elnum_rlnum, asm::s_elnum)]
    #[kani::stub(decode_rpsmf, asm::s_rpsmf)]
    #[kani::stub(decode_trpi, asm::s_trpi)]
    #[kani::stub(decode_bcm, asm::s_bcm)]
    #[kani::stub(decode_rprp, asm::s_rprp)]
    #[kani::stub(decode_trb, asm::s_trb)]
    #[kani::stub(decode_dbquant, asm::s_dbquant)]
    #[kani::stub(decode_pei, asm::s_pei)]
    fn std_assembly_err() {
        asm::std_assembly::<true, 2>()
    }
    #[kani::proof]
    #[kani::unwind(8)]
    fn option_mask() {
        h_option_mask(&mut KSrc)
    }
    #[kani::proof]
    fn bitflags_model2() {
        h_bitflags_model2(&mut KSrc)
    }
}

#[cfg(all(test, not(kani)))]
mod replay {
    use super::*;
    fn dispatch(name: &str, r: &mut RSrc) -> bool {
        match name {
            "option_mask" => h_option_mask(r),
            "bitflags_model2" => h_bitflags_model2(r),
            "hdr_std_dyn" => h_hdr_std_dyn(r),
            "hdr_sor_dyn" => h_hdr_sor_dyn(r),
            _ => return false,
        }
        true
    }
    #[test]
    fn verif_replay() {
        verif_replay_main(dispatch)
    }
}
