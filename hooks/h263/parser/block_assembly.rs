// C02 / C11: the ASSEMBLY obligation of decode_block (H.263 5.4, the block layer): INTRADC (8 bits, INTRA macroblocks only), then TCOEF
// events until one with LAST = 1 - a table code word followed by its sign bit, or ESCAPE followed by LAST (1 bit), RUN (6 bits) and LEVEL
// (8 bits two's complement; Sorenson Spark version 1: a flag bit, then 11 bits if it is 1, 7 bits if it is 0) - proved modularly: the
// reader operations are contract stubs that log the call and its width and deliver scripted symbolic values (read_vlc: the leaf at a
// symbolic slot of the real TCOEF table), and the harness replays the same script through the Recommendation's syntax and compares the
// sequence of reads and the resulting Block (INTRADC code, every event's RUN, signed LEVEL, short/escape form; the block ends exactly at
// LAST). BOUNDED to blocks of at most N events, N = 3 (quick) or 4 (thorough) (the loop body is the same for every event); complete over table slots, signs, escape
// fields, stream versions, macroblock types and failing positions.
#[cfg(kani)]
pub mod blkasm {
    use super::*;

    pub const NEV: usize = 4;
    pub const T_VLC: u8 = 0x40;
    pub const T_RD: u8 = 0x80; // | width
    pub const T_SRD: u8 = 0xC0; // | width (signed read)

    pub struct St {
        pub magic: u64,
        pub log: [u8; 24],
        pub nlog: usize,
        pub fail_at: usize,
        pub slots: [usize; NEV],
        pub nvlc: usize,
        pub vals: [u8; 24],
        pub nrd: usize,
        pub svals: [i16; NEV],
        pub nsrd: usize,
    }
    pub static mut ST: St = St { magic: 0xB10C_A55E_3B1E_5EED, log: [0; 24], nlog: 0, fail_at: 99, slots: [0; NEV], nvlc: 0, vals: [0; 24], nrd: 0, svals: [0; NEV], nsrd: 0 };

    fn log(tag: u8) -> bool {
        unsafe {
            let k = ST.nlog;
            if k < 24 {
                ST.log[k] = tag;
            }
            ST.nlog = k + 1;
            k == ST.fail_at
        }
    }
    fn mask(v: u8, n: u32) -> u8 {
        if n >= 8 { v } else { v & ((1u8 << n) - 1) }
    }
    impl<R: Read> H263Reader<R> {
        pub fn verif_blk_read_bits<T: crate::traits::BitReadable>(&mut self, n: u32) -> Result<T> {
            if log(T_RD | (n as u8 & 0x3F)) {
                return Err(Error::InvalidBitstream);
            }
            unsafe {
                let k = ST.nrd;
                ST.nrd = k + 1;
                Ok(T::from(mask(if k < 24 { ST.vals[k] } else { 0 }, n)))
            }
        }
        pub fn verif_blk_read_signed_bits<T: crate::traits::BitReadable>(&mut self, n: u32) -> Result<T> {
            // only used at T = i16 (the LEVEL of an escape): the script holds the value; its range is the width's (reader contract, C14)
            if log(T_SRD | (n as u8 & 0x3F)) {
                return Err(Error::InvalidBitstream);
            }
            unsafe {
                let k = ST.nsrd;
                ST.nsrd = k + 1;
                let v: i16 = if k < NEV { ST.svals[k] } else { 0 };
                // T is i16 here; build it from its two bytes through the BitReadable operations
                let lo = T::from((v as u16 & 0xFF) as u8);
                let hi = T::from((v as u16 >> 8) as u8);
                Ok(hi.checked_shl(8).unwrap_or_else(T::zero) | lo)
            }
        }
        pub fn verif_blk_read_vlc<T: Clone>(&mut self, table: &crate::parser::vlc::Table<T>) -> Result<T> {
            if log(T_VLC) {
                return Err(Error::InvalidBitstream);
            }
            let slot = unsafe {
                let k = ST.nvlc;
                ST.nvlc = k + 1;
                if k < NEV { ST.slots[k] } else { 0 }
            };
            match table.get(slot) {
                Some(Entry::End(t)) => Ok(t.clone()),
                _ => Err(Error::InternalDecoderError),
            }
        }
    }

    fn blank_picture(version: Option<u8>) -> Picture {
        Picture {
            version, temporal_reference: 0, format: None, options: PictureOption::empty(), has_plusptype: false, has_opptype: false, picture_type: crate::types::PictureTypeCode::IFrame,
            motion_vector_range: None, slice_submode: None, scalability_layer: None, reference_picture_selection_mode: None, prediction_reference: None,
            backchannel_message: None, reference_picture_resampling: None, quantizer: 1, multiplex_bitstream: None, pb_reference: None, pb_quantizer: None, extra: Vec::new(),
        }
    }

    pub fn blk_assembly<const INJECT: bool, const N: usize>() {
        let dec_bits: u8 = kani::any();
        kani::assume(dec_bits < 4);
        let dec = DecoderOption::from_bits_truncate(dec_bits);
        let ver: u8 = kani::any();
        kani::assume(ver < 3);
        let pic = blank_picture(if ver == 2 { None } else { Some(ver) });
        let v1 = dec_bits & 1 == 1 && ver == 1;
        let intra: bool = kani::any();
        let mbt = if intra { MacroblockType::Intra } else { MacroblockType::Inter };
        let present: bool = kani::any();
        let opts = PictureOption::from_bits_truncate(kani::any::<u32>() & !PictureOption::MODIFIED_QUANTIZATION.bits());
        let vals: [u8; 24] = kani::any();
        let svals: [i16; NEV] = kani::any();
        let slots: [usize; NEV] = kani::any();
        kani::assume(slots[0] < 207 && slots[1] < 207 && slots[2] < 207 && slots[3] < 207);
        unsafe {
            ST.fail_at = if INJECT { kani::any() } else { 99 };
            ST.vals = vals;
            ST.svals = svals;
            ST.slots = slots;
        }
        let all = [0u8; 2];
        let mut rd = H263Reader::from_source(&all[..]);
        let res = decode_block(&mut rd, dec, &pic, opts, mbt, present);
        core::mem::forget(pic);

        // ---- H.263 5.4 replayed on the same script ---------------------------------------------------------------------------------
        let mut exp: [u8; 24] = [0; 24];
        let mut n = 0;
        macro_rules! push {
            ($t:expr) => {{
                exp[n] = $t;
                n += 1;
            }};
        }
        let mut k = 0; // next scripted unsigned read
        let mut ks = 0; // next scripted signed read
        let mut err = false; // the syntax itself is invalid (invalid INTRADC, invalid code word, forbidden LEVEL)
        let mut dc: Option<u8> = None;
        let mut ev_run: [u8; NEV] = [0; NEV];
        let mut ev_level: [i16; NEV] = [0; NEV];
        let mut ev_short: [bool; NEV] = [false; NEV];
        let mut nev = 0;
        if intra {
            push!(T_RD | 8);
            let c = vals[k];
            k += 1;
            if c == 0 || c == 128 {
                err = true;
            }
            dc = Some(c);
        }
        let mut more = present && !err;
        let mut e = 0;
        while e < N {
            if more {
                push!(T_VLC);
                match TCOEF_TABLE.get(slots[e]) {
                    Some(Entry::End(Some(ShortTCoefficient::Run { last, run, level }))) => {
                        push!(T_RD | 1);
                        let sign = vals[k] & 1;
                        k += 1;
                        ev_run[nev] = *run;
                        ev_level[nev] = if sign == 0 { *level as i16 } else { -(*level as i16) };
                        ev_short[nev] = true;
                        nev += 1;
                        more = !*last;
                    }
                    Some(Entry::End(Some(ShortTCoefficient::EscapeToLong))) => {
                        let width: u8 = if v1 {
                            push!(T_RD | 1);
                            let f = vals[k] & 1;
                            k += 1;
                            if f == 1 { 11 } else { 7 }
                        } else {
                            8
                        };
                        push!(T_RD | 1);
                        let last = vals[k] & 1 == 1;
                        k += 1;
                        push!(T_RD | 6);
                        let run = vals[k] & 0x3F;
                        k += 1;
                        push!(T_SRD | width);
                        let level = svals[ks];
                        ks += 1;
                        // what a signed read of that width can deliver (reader contract, C14)
                        let half: i16 = 1 << (width - 1);
                        kani::assume(level >= -half && level < half);
                        if level == 0 {
                            err = true;
                            more = false;
                        } else {
                            ev_run[nev] = run;
                            ev_level[nev] = level;
                            ev_short[nev] = false;
                            nev += 1;
                            more = !last;
                        }
                    }
                    _ => {
                        err = true;
                        more = false;
                    }
                }
            }
            e += 1;
        }
        // bound: the block ends within NEV events
        kani::assume(!more);
        let (nlog, fail_at) = unsafe { (ST.nlog, ST.fail_at) };
        let made = if fail_at < n { fail_at + 1 } else { n };
        assert!(nlog == made, "block.decode_block.order_len: exactly the syntax elements of H.263 5.4 are read (up to the first failing or invalid one)");
        // (unrolled: the harness's global unwinding bound is kept at the number of events)
        let lg = unsafe { ST.log };
        let mut same = true;
        macro_rules! cmp {
            ($($j:expr),*) => {$(
                if $j < made && lg[$j] != exp[$j] {
                    same = false;
                }
            )*};
        }
        cmp!(0, 1, 2, 3, 4, 5, 6, 7, 8, 9, 10, 11, 12, 13, 14, 15, 16, 17, 18, 19, 20, 21, 22, 23);
        assert!(same, "block.decode_block.order: INTRADC (8 bits, INTRA only), then per event: TCOEF code word + sign bit, or ESCAPE + [flag] LAST (1) RUN (6) LEVEL (8 / 7 / 11, signed); the block ends at LAST = 1");
        match res {
            Err(e) => {
                assert!(fail_at < n || err, "block.decode_block.accepts: a syntactically valid block is accepted; decode_block fails only for an invalid INTRADC, an invalid code word, a zero escape LEVEL or a failing read");
                core::mem::forget(e);
            }
            Ok(b) => {
                assert!(fail_at >= n && !err, "block.decode_block.err_propagates: an invalid INTRADC, an invalid code word, a zero escape LEVEL or a failing read fails the block");
                assert!(b.intradc == dc.and_then(IntraDc::from_u8), "block.decode_block.intradc: the INTRADC code of INTRA blocks, none otherwise");
                assert!(b.tcoef.len() == nev, "block.decode_block.events_len: one event per code word up to and including the one with LAST = 1");
                let mut i = 0;
                let mut ok = true;
                while i < NEV {
                    if i < nev && i < b.tcoef.len() {
                        let t = &b.tcoef[i];
                        if t.run != ev_run[i] || t.level != ev_level[i] || t.is_short != ev_short[i] {
                            ok = false;
                        }
                    }
                    i += 1;
                }
                assert!(ok, "block.decode_block.events: RUN and LEVEL of the code word with the sign bit applied (1 = negative), or RUN and signed LEVEL of the escape");
                kani::cover!(true, "reach_end");
                core::mem::forget(b);
            }
        }
    }
}
