// Hook module of h263/src/parser/block.rs.  Property C02 (and C11): the TCOEF table against the facts of Table 16/H.263 that can be
// stated without retyping its 102 code words: the table is a proper prefix tree, its event leaves are EXACTLY the events that have a code
// word (LEVEL 1..=LMAX(LAST, RUN)), each once, the ESCAPE code word and the five shortest code words are the Recommendation's.
// (Two leaves exchanged for one another are not seen by this check.)
#![allow(dead_code, unused_imports)]
use super::*;

include!("/verif/hooks/common.rs");
include!("/verif/spec/h263_vlc_tables.rs");

fn walk<T: Clone>(table: &[Entry<T>], code: &str) -> Option<(T, usize)> {
    let b = code.as_bytes();
    let mut idx = 0usize;
    let mut used = 0usize;
    let mut steps = 0;
    while steps < 40 {
        match table.get(idx) {
            Some(Entry::End(t)) => return Some((t.clone(), used)),
            Some(Entry::Fork(z, o)) => {
                if used >= b.len() {
                    return None;
                }
                idx = if b[used] == b'0' { *z } else { *o };
                used += 1;
            }
            None => return None,
        }
        steps += 1;
    }
    None
}

// every slot except the root is the child of exactly one fork, children lie inside the table
fn prefix_tree<T>(table: &[Entry<T>]) -> bool {
    let mut refs = [0u8; 256];
    let mut ok = table.len() <= 256;
    let mut i = 0;
    while i < table.len() {
        if let Entry::Fork(z, o) = &table[i] {
            if *z >= table.len() || *o >= table.len() || *z == 0 || *o == 0 || *z == *o {
                ok = false;
            } else {
                refs[*z] += 1;
                refs[*o] += 1;
            }
        }
        i += 1;
    }
    // every slot is reachable; forks have exactly one parent (no cycles, no shared subtrees); a leaf may be shared (e.g. one `Invalid` leaf)
    let mut k = 1;
    while k < table.len() {
        if refs[k] == 0 || (refs[k] != 1 && matches!(&table[k], Entry::Fork(..))) {
            ok = false;
        }
        k += 1;
    }
    ok && refs[0] == 0
}

fn h_tcoef_table<S: Src>(s: &mut S) {
    chk!(s, prefix_tree(&TCOEF_TABLE[..]), "block.TCOEF_TABLE.prefix_tree: a well-formed code tree: every slot reachable, every fork has one parent, indices inside the table");
    let mut seen = [[[false; 13]; 41]; 2];
    let mut events = 0;
    let mut escapes = 0;
    let mut in_set = true;
    let mut once = true;
    let mut i = 0;
    while i < TCOEF_TABLE.len() {
        match &TCOEF_TABLE[i] {
            Entry::End(Some(ShortTCoefficient::Run { last, run, level })) => {
                events += 1;
                let lmax = h263_vlc_spec::tcoef_lmax(*last, *run);
                if *level < 1 || *level > lmax {
                    in_set = false;
                } else {
                    let l = *last as usize;
                    if seen[l][*run as usize][*level as usize] {
                        once = false;
                    }
                    seen[l][*run as usize][*level as usize] = true;
                }
            }
            Entry::End(Some(ShortTCoefficient::EscapeToLong)) => escapes += 1,
            _ => {}
        }
        i += 1;
    }
    chk!(s, in_set, "block.TCOEF_TABLE.table16_events: every (LAST, RUN, LEVEL) leaf is an event that has a code word in Table 16 (LEVEL <= LMAX(LAST, RUN))");
    chk!(s, once && events == 102, "block.TCOEF_TABLE.table16_complete: the 102 events of Table 16, each exactly once");
    chk!(s, escapes == 1 && matches!(walk(&TCOEF_TABLE[..], h263_vlc_spec::TCOEF_ESCAPE), Some((Some(ShortTCoefficient::EscapeToLong), 7))), "block.TCOEF_TABLE.escape: ESCAPE is 0000 011, once");
    let mut k = 0;
    let mut short_ok = true;
    while k < 5 {
        let (code, last, run, level) = h263_vlc_spec::TCOEF_SHORTEST[k];
        match walk(&TCOEF_TABLE[..], code) {
            Some((Some(ShortTCoefficient::Run { last: l, run: r, level: v }), used)) => {
                if l != last || r != run || v != level || used != code.len() {
                    short_ok = false;
                }
            }
            _ => short_ok = false,
        }
        k += 1;
    }
    chk!(s, short_ok, "block.TCOEF_TABLE.shortest: 10, 110, 1110, 1111, 0111 are (0,0,1) (0,1,1) (0,2,1) (0,0,2) (1,0,1)");
    s.reach();
}

include!("/verif/hooks/h263/parser/block_assembly.rs");

#[cfg(kani)]
mod proofs {
    use super::*;
    #[kani::proof]
    #[kani::unwind(7)]
    #[kani::stub(H263Reader::read_bits, H263Reader::verif_blk_read_bits)]
    #[kani::stub(H263Reader::read_signed_bits, H263Reader::verif_blk_read_signed_bits)]
    #[kani::stub(H263Reader::read_vlc, H263Reader::verif_blk_read_vlc)]
    fn blk_assembly() {
        blkasm::blk_assembly::<false, 3>()
    }
    #[kani::proof]
    #[kani::unwind(7)]
    #[kani::stub(H263Reader::read_bits, H263Reader::verif_blk_read_bits)]
    #[kani::stub(H263Reader::read_signed_bits, H263Reader::verif_blk_read_signed_bits)]
    #[kani::stub(H263Reader::read_vlc, H263Reader::verif_blk_read_vlc)]
    fn blk_assembly_err() {
        blkasm::blk_assembly::<true, 3>()
    }
    #[kani::proof]
    #[kani::unwind(7)]
    #[kani::stub(H263Reader::read_bits, H263Reader::verif_blk_read_bits)]
    #[kani::stub(H263Reader::read_signed_bits, H263Reader::verif_blk_read_signed_bits)]
    #[kani::stub(H263Reader::read_vlc, H263Reader::verif_blk_read_vlc)]
    fn blk_assembly_n4() {
        blkasm::blk_assembly::<false, 4>()
    }
    #[kani::proof]
    #[kani::unwind(7)]
    #[kani::stub(H263Reader::read_bits, H263Reader::verif_blk_read_bits)]
    #[kani::stub(H263Reader::read_signed_bits, H263Reader::verif_blk_read_signed_bits)]
    #[kani::stub(H263Reader::read_vlc, H263Reader::verif_blk_read_vlc)]
    fn blk_assembly_err_n4() {
        blkasm::blk_assembly::<true, 4>()
    }
    #[kani::proof]
    #[kani::unwind(260)]
    fn tcoef_table() {
        h_tcoef_table(&mut KSrc)
    }
}

#[cfg(all(test, not(kani)))]
mod replay {
    use super::*;
    fn dispatch(name: &str, r: &mut RSrc) -> bool {
        match name {
            "tcoef_table" => h_tcoef_table(r),
            _ => return false,
        }
        true
    }
    #[test]
    fn verif_replay() {
        verif_replay_main(dispatch)
    }
}
