// Hook module of h263/src/parser/macroblock.rs.  Properties: C12 (MVD table == Table 14, f32 -> half-sample units exact).
#![allow(dead_code, unused_imports)]
use super::*;

include!("/verif/hooks/common.rs");
include!("/verif/spec/h263_tables.rs");
include!("/verif/spec/h263_vlc_tables.rs");

// walk a VLC table along a code word given as a string of '0'/'1' (the semantics `read_vlc` is proved against in C14)
fn walk<T: Clone>(table: &[Entry<T>], code: &str) -> Option<(T, usize)> {
    let b = code.as_bytes();
    let mut idx = 0usize;
    let mut used = 0usize;
    let mut steps = 0;
    while steps < 40 {
        match table.get(idx) {
            Some(Entry::End(t)) => return Some((t.clone(), used)),
            Some(Entry::Fork(z, o)) => {
                if used >= b.len() {
                    return None;
                }
                idx = if b[used] == b'0' { *z } else { *o };
                used += 1;
            }
            None => return None,
        }
        steps += 1;
    }
    None
}

// all 64 code words of Table 14: the walk ends exactly at the end of the code word on Some(v) with 2*v == the
// half-sample value of the table, and HalfPel::from(v) is that value; the table holds no other value leaves.
fn h_mvd_table<S: Src>(s: &mut S) {
    let mut ok_val = true;
    let mut ok_len = true;
    let mut m = 0usize;
    while m <= 31 {
        if m == 0 {
            match walk(&MVD_TABLE[..], h263_spec::MVD_ZERO) {
                Some((Some(v), used)) => {
                    ok_val &= HalfPel::from(v) == HalfPel::from_unit(0);
                    ok_len &= used == 1;
                }
                _ => ok_val = false,
            }
        } else {
            let mut sign = 0;
            while sign < 2 {
                let mut code = String::from(h263_spec::MVD_PREFIX[m]);
                code.push(if sign == 0 { '0' } else { '1' });
                let want = if sign == 0 { m as i16 } else { -(m as i16) };
                match walk(&MVD_TABLE[..], &code) {
                    Some((Some(v), used)) => {
                        ok_val &= HalfPel::from(v) == HalfPel::from_unit(want) && v * 2.0 == want as f32;
                        ok_len &= used == code.len();
                    }
                    _ => ok_val = false,
                }
                sign += 1;
            }
        }
        m += 1;
    }
    match walk(&MVD_TABLE[..], h263_spec::MVD_MINUS16) {
        Some((Some(v), used)) => {
            ok_val &= HalfPel::from(v) == HalfPel::from_unit(-32) && v == -16.0;
            ok_len &= used == h263_spec::MVD_MINUS16.len();
        }
        _ => ok_val = false,
    }
    let mut leaves = 0;
    let mut i = 0;
    while i < MVD_TABLE.len() {
        if let Entry::End(Some(_)) = MVD_TABLE[i] {
            leaves += 1;
        }
        i += 1;
    }
    chk!(s, ok_val, "macroblock.MVD_TABLE.table14_values: every code word of Table 14 decodes to its vector difference, exactly representable in half-sample units");
    chk!(s, ok_len, "macroblock.MVD_TABLE.table14_lengths: every code word is consumed exactly");
    chk!(s, leaves == 64, "macroblock.MVD_TABLE.table14_complete: exactly 64 value leaves");
    s.reach();
}

fn mbt_code(t: MacroblockType) -> u8 {
    match t {
        MacroblockType::Inter => 0,
        MacroblockType::InterQ => 1,
        MacroblockType::Inter4V => 2,
        MacroblockType::Intra => 3,
        MacroblockType::IntraQ => 4,
        MacroblockType::Inter4Vq => 5,
    }
}
fn prefix_tree<T>(table: &[Entry<T>]) -> bool {
    let mut refs = [0u8; 64];
    let mut ok = table.len() <= 64;
    let mut i = 0;
    while i < table.len() {
        if let Entry::Fork(z, o) = &table[i] {
            if *z >= table.len() || *o >= table.len() || *z == 0 || *o == 0 || *z == *o {
                ok = false;
            } else {
                refs[*z] += 1;
                refs[*o] += 1;
            }
        }
        i += 1;
    }
    // every slot is reachable; forks have exactly one parent (no cycles, no shared subtrees); a leaf may be shared (e.g. one `Invalid` leaf)
    let mut k = 1;
    while k < table.len() {
        if refs[k] == 0 || (refs[k] != 1 && matches!(&table[k], Entry::Fork(..))) {
            ok = false;
        }
        k += 1;
    }
    ok && refs[0] == 0
}
fn mcbpc_ok(table: &[Entry<BlockPatternEntry>], spec: &[(&str, u8, bool, bool)]) -> (bool, bool) {
    let mut ok = true;
    let mut k = 0;
    while k < spec.len() {
        let (code, t, cb, cr) = spec[k];
        match walk(table, code) {
            Some((BlockPatternEntry::Valid(mt, b, r), used)) => {
                if mbt_code(mt) != t || b != cb || r != cr || used != code.len() {
                    ok = false;
                }
            }
            _ => ok = false,
        }
        k += 1;
    }
    let stuffing = matches!(walk(table, h263_vlc_spec::MCBPC_STUFFING), Some((BlockPatternEntry::Stuffing, 9)));
    let mut valid = 0;
    let mut stuff = 0;
    let mut i = 0;
    while i < table.len() {
        match &table[i] {
            Entry::End(BlockPatternEntry::Valid(..)) => valid += 1,
            Entry::End(BlockPatternEntry::Stuffing) => stuff += 1,
            _ => {}
        }
        i += 1;
    }
    (ok && stuffing, valid == spec.len() && stuff == 1)
}
// MCBPC for I and P pictures == Tables 7 and 8/H.263; CBPY == Table 13/H.263
fn h_mb_tables<S: Src>(s: &mut S) {
    let (vi, ci) = mcbpc_ok(&MCBPC_I_TABLE[..], &h263_vlc_spec::MCBPC_I[..]);
    chk!(s, vi, "macroblock.MCBPC_I_TABLE.table7: every code word of Table 7 decodes to its macroblock type and chroma pattern; stuffing is 0000 0000 1");
    chk!(s, ci && prefix_tree(&MCBPC_I_TABLE[..]), "macroblock.MCBPC_I_TABLE.table7_complete: 8 value leaves and one stuffing leaf in a well-formed code tree");
    let (vp, cp) = mcbpc_ok(&MCBPC_P_TABLE[..], &h263_vlc_spec::MCBPC_P[..]);
    chk!(s, vp, "macroblock.MCBPC_P_TABLE.table8: every code word of Table 8 decodes to its macroblock type and chroma pattern; stuffing is 0000 0000 1");
    chk!(s, cp && prefix_tree(&MCBPC_P_TABLE[..]), "macroblock.MCBPC_P_TABLE.table8_complete: 24 value leaves and one stuffing leaf in a well-formed code tree");
    let mut ok = true;
    let mut k = 0;
    while k < 16 {
        let (code, v) = h263_vlc_spec::CBPY_INTRA[k];
        match walk(&CBPY_TABLE_INTRA[..], code) {
            Some((Some(b), used)) => {
                let got = ((b[0] as u8) << 3) | ((b[1] as u8) << 2) | ((b[2] as u8) << 1) | (b[3] as u8);
                if got != v || used != code.len() {
                    ok = false;
                }
            }
            _ => ok = false,
        }
        k += 1;
    }
    let mut leaves = 0;
    let mut i = 0;
    while i < CBPY_TABLE_INTRA.len() {
        if let Entry::End(Some(_)) = &CBPY_TABLE_INTRA[i] {
            leaves += 1;
        }
        i += 1;
    }
    chk!(s, ok, "macroblock.CBPY_TABLE_INTRA.table13: every code word of Table 13 decodes to its luminance pattern (INTRA sense; INTER is the complement)");
    chk!(s, leaves == 16 && prefix_tree(&CBPY_TABLE_INTRA[..]), "macroblock.CBPY_TABLE_INTRA.table13_complete: exactly 16 value leaves in a well-formed code tree");
    s.reach();
}

include!("/verif/hooks/h263/parser/macroblock_assembly.rs");

#[cfg(kani)]
mod proofs {
    use super::*;
    #[kani::proof]
    #[kani::unwind(14)]
    #[kani::stub(H263Reader::read_bits, H263Reader::verif_mb_read_bits)]
    #[kani::stub(H263Reader::read_vlc, H263Reader::verif_mb_read_vlc)]
    #[kani::stub(decode_dquant, mbasm::s_dquant)]
    #[kani::stub(decode_motion_vector, mbasm::s_mv)]
    #[kani::stub(decode_cbpb, mbasm::s_cbpb)]
    fn mb_assembly() {
        mbasm::mb_assembly::<false>()
    }
    #[kani::proof]
    #[kani::unwind(14)]
    #[kani::stub(H263Reader::read_bits, H263Reader::verif_mb_read_bits)]
    #[kani::stub(H263Reader::read_vlc, H263Reader::verif_mb_read_vlc)]
    #[kani::stub(decode_dquant, mbasm::s_dquant)]
    #[kani::stub(decode_motion_vector, mbasm::s_mv)]
    #[kani::stub(decode_cbpb, mbasm::s_cbpb)]
    fn mb_assembly_err() {
        mbasm::mb_assembly::<true>()
    }
    #[kani::proof]
    #[kani::unwind(140)]
    fn mvd_table() {
        h_mvd_table(&mut KSrc)
    }
    #[kani::proof]
    #[kani::unwind(70)]
    fn mb_tables() {
        h_mb_tables(&mut KSrc)
    }
}

#[cfg(all(test, not(kani)))]
mod replay {
    use super::*;
    fn dispatch(name: &str, r: &mut RSrc) -> bool {
        match name {
            "mvd_table" => h_mvd_table(r),
            "mb_tables" => h_mb_tables(r),
            _ => return false,
        }
        true
    }
    #[test]
    fn verif_replay() {
        verif_replay_main(dispatch)
    }
}
