// Hook module of h263/src/parser/macroblock.rs.  Properties: C12 (MVD table == Table 14, f32 -> half-sample units exact).
#![allow(dead_code, unused_imports)]
use super::*;

include!("/verif/hooks/common.rs");
include!("/verif/spec/h263_tables.rs");

// walk a VLC table along a code word given as a string of '0'/'1' (the semantics `read_vlc` is proved against in C14)
fn walk<T: Clone>(table: &[Entry<T>], code: &str) -> Option<(T, usize)> {
    let b = code.as_bytes();
    let mut idx = 0usize;
    let mut used = 0usize;
    let mut steps = 0;
    while steps < 40 {
        match table.get(idx) {
            Some(Entry::End(t)) => return Some((t.clone(), used)),
            Some(Entry::Fork(z, o)) => {
                if used >= b.len() {
                    return None;
                }
                idx = if b[used] == b'0' { *z } else { *o };
                used += 1;
            }
            None => return None,
        }
        steps += 1;
    }
    None
}

// all 64 code words of Table 14: the walk ends exactly at the end of the code word on Some(v) with 2*v == the
// half-sample value of the table, and HalfPel::from(v) is that value; the table holds no other value leaves.
fn h_mvd_table<S: Src>(s: &mut S) {
    let mut ok_val = true;
    let mut ok_len = true;
    let mut m = 0usize;
    while m <= 31 {
        if m == 0 {
            match walk(&MVD_TABLE[..], h263_spec::MVD_ZERO) {
                Some((Some(v), used)) => {
                    ok_val &= HalfPel::from(v) == HalfPel::from_unit(0);
                    ok_len &= used == 1;
                }
                _ => ok_val = false,
            }
        } else {
            let mut sign = 0;
            while sign < 2 {
                let mut code = String::from(h263_spec::MVD_PREFIX[m]);
                code.push(if sign == 0 { '0' } else { '1' });
                let want = if sign == 0 { m as i16 } else { -(m as i16) };
                match walk(&MVD_TABLE[..], &code) {
                    Some((Some(v), used)) => {
                        ok_val &= HalfPel::from(v) == HalfPel::from_unit(want) && v * 2.0 == want as f32;
                        ok_len &= used == code.len();
                    }
                    _ => ok_val = false,
                }
                sign += 1;
            }
        }
        m += 1;
    }
    match walk(&MVD_TABLE[..], h263_spec::MVD_MINUS16) {
        Some((Some(v), used)) => {
            ok_val &= HalfPel::from(v) == HalfPel::from_unit(-32) && v == -16.0;
            ok_len &= used == h263_spec::MVD_MINUS16.len();
        }
        _ => ok_val = false,
    }
    let mut leaves = 0;
    let mut i = 0;
    while i < MVD_TABLE.len() {
        if let Entry::End(Some(_)) = MVD_TABLE[i] {
            leaves += 1;
        }
        i += 1;
    }
    chk!(s, ok_val, "macroblock.MVD_TABLE.table14_values: every code word of Table 14 decodes to its vector difference, exactly representable in half-sample units");
    chk!(s, ok_len, "macroblock.MVD_TABLE.table14_lengths: every code word is consumed exactly");
    chk!(s, leaves == 64, "macroblock.MVD_TABLE.table14_complete: exactly 64 value leaves");
    s.reach();
}

#[cfg(kani)]
mod proofs {
    use super::*;
    #[kani::proof]
    #[kani::unwind(140)]
    fn mvd_table() {
        h_mvd_table(&mut KSrc)
    }
}

#[cfg(all(test, not(kani)))]
mod replay {
    use super::*;
    fn dispatch(name: &str, r: &mut RSrc) -> bool {
        match name {
            "mvd_table" => h_mvd_table(r),
            _ => return false,
        }
        true
    }
    #[test]
    fn verif_replay() {
        verif_replay_main(dispatch)
    }
}
