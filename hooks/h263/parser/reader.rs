// Hook module of h263/src/parser/reader.rs.  Property C14 (and the reader clauses of C05, C15); also the discharge of the reader
// contract (A-READER) that the Verus parser units assume.
//
// Every public operation is verified from an ARBITRARY well-formed reader state of a given shape - `TOTAL` stream bytes of which `B` are
// already in the internal buffer and the rest still in the source, `bits_read == POS` - against a bit-vector model of the stream; the stream
// bytes are symbolic, the shape and the operation's width are concrete (enumerated). Because each operation is checked from any state of
// the shape to the state it leaves, any interleaving of operations is covered by induction over the history - within the bound on TOTAL.
#![allow(dead_code, unused_imports)]
use super::*;

include!("/verif/hooks/common.rs");

const MAXB: usize = 4;

fn model_bits(all: &[u8; MAXB], pos: usize, n: usize) -> u64 {
    let mut acc = 0u64;
    let mut k = 0;
    while k < n {
        let p = pos + k;
        let bit = (all[p / 8] >> (7 - (p % 8))) & 1;
        acc = (acc << 1) | bit as u64;
        k += 1;
    }
    acc
}
fn mk(all: &[u8; MAXB], total: usize, b: usize, pos: usize) -> H263Reader<&[u8]> {
    let mut r = H263Reader::from_source(&all[b..total]);
    let mut i = 0;
    while i < b {
        r.buffer.push_back(all[i]);
        i += 1;
    }
    r.bits_read = pos;
    r
}
fn is_eof(e: &Error) -> bool {
    e.is_eof_error()
}
// absolute position of a reader whose buffer starts at stream byte `base`
fn abs_pos<R: Read>(r: &H263Reader<R>, base: usize) -> usize {
    base * 8 + r.bits_read
}

// ---- fixed-width reads ---------------------------------------------------------------------------------------------------------------------------
// peek / read / skip of n bits, n = 0..=NMAX, into u32: value, position, failure (EOF) consumes nothing and keeps what it fetched
// (widths n = NLO, NLO + STEP, NLO + 2*STEP, ... and always NMAX)
fn h_read_u32<S: Src, const TOTAL: usize, const B: usize, const POS: usize, const NLO: usize, const NMAX: usize, const STEP: usize>(s: &mut S) {
    let all: [u8; MAXB] = s.arr();
    let mut n = NLO;
    while n <= NMAX {
        let fits = POS + n <= TOTAL * 8;
        // peek
        let mut r = mk(&all, TOTAL, B, POS);
        match r.peek_bits::<u32>(n as u32) {
            Ok(v) => chk!(s, fits && v as u64 == model_bits(&all, POS, n), "reader.peek_bits.post_value: the n bits at the position, most significant first"),
            Err(e) => {
                chk!(s, !fits && is_eof(&e), "reader.peek_bits.post_eof: fails exactly when fewer than n bits remain, with end-of-data");
                core::mem::forget(e);
            }
        }
        chk!(s, r.bits_read == POS, "reader.peek_bits.post_pos: a peek consumes nothing");
        // read
        let mut r = mk(&all, TOTAL, B, POS);
        match r.read_bits::<u32>(n as u32) {
            Ok(v) => {
                chk!(s, fits && v as u64 == model_bits(&all, POS, n), "reader.read_bits.post_value: the n bits at the position, most significant first");
                chk!(s, r.bits_read == POS + n, "reader.read_bits.post_pos: exactly n bits are consumed");
            }
            Err(e) => {
                chk!(s, !fits && is_eof(&e), "reader.read_bits.post_eof: fails exactly when fewer than n bits remain, with end-of-data");
                chk!(s, r.bits_read == POS, "reader.read_bits.err_pos: a failed read consumes nothing");
                core::mem::forget(e);
                // whatever was fetched is retained: the remaining whole bytes can still be read
                if POS + 8 <= TOTAL * 8 {
                    match r.read_bits::<u32>(8) {
                        Ok(v) => chk!(s, v as u64 == model_bits(&all, POS, 8), "reader.read_bits.err_retains: after a failed read the same bits are still delivered"),
                        Err(e2) => {
                            chk!(s, false, "reader.read_bits.err_retains: after a failed read the same bits are still delivered");
                            core::mem::forget(e2);
                        }
                    }
                }
            }
        }
        // skip
        let mut r = mk(&all, TOTAL, B, POS);
        match r.skip_bits(n as u32) {
            Ok(()) => chk!(s, fits && r.bits_read == POS + n, "reader.skip_bits.post_pos: exactly n bits are skipped"),
            Err(e) => {
                chk!(s, !fits && is_eof(&e) && r.bits_read == POS, "reader.skip_bits.err_pos: a failed skip consumes nothing");
                core::mem::forget(e);
            }
        }
        n = if n < NMAX && n + STEP > NMAX { NMAX } else { n + STEP };
    }
    s.reach();
}

// narrow and signed types: width check (n > width => InternalDecoderError), zero extension, two's-complement sign extension
// (widths NLO..=NHI; the driver's shapes cover 0..=17 between them)
fn h_read_narrow<S: Src, const TOTAL: usize, const B: usize, const POS: usize, const NLO: usize, const NHI: usize>(s: &mut S) {
    let all: [u8; MAXB] = s.arr();
    let mut n = NLO;
    while n <= NHI {
        let fits = POS + n <= TOTAL * 8;
        let mut r = mk(&all, TOTAL, B, POS);
        match r.read_bits::<u8>(n as u32) {
            Ok(v) => chk!(s, n <= 8 && fits && v as u64 == model_bits(&all, POS, n) && r.bits_read == POS + n, "reader.read_bits.u8: value and position for n <= 8"),
            Err(e) => {
                chk!(s, (n > 8 || !fits) && r.bits_read == POS, "reader.read_bits.u8_err: rejected only beyond the type width or the end of data; nothing consumed");
                core::mem::forget(e);
            }
        }
        let mut r = mk(&all, TOTAL, B, POS);
        match r.read_bits::<u16>(n as u32) {
            Ok(v) => chk!(s, n <= 16 && fits && v as u64 == model_bits(&all, POS, n) && r.bits_read == POS + n, "reader.read_bits.u16: value and position for n <= 16"),
            Err(e) => {
                chk!(s, (n > 16 || !fits) && r.bits_read == POS, "reader.read_bits.u16_err");
                core::mem::forget(e);
            }
        }
        if n >= 1 && n <= 16 {
            let mut r = mk(&all, TOTAL, B, POS);
            match r.read_signed_bits::<i16>(n as u32) {
                Ok(v) => {
                    let raw = model_bits(&all, POS, n) as i64;
                    let want = if raw >= (1i64 << (n - 1)) { raw - (1i64 << n) } else { raw };
                    chk!(s, fits && v as i64 == want && r.bits_read == POS + n, "reader.read_signed_bits.post: two's-complement sign extension of the n bits; n bits consumed");
                }
                Err(e) => {
                    chk!(s, !fits && r.bits_read == POS, "reader.read_signed_bits.err_pos: a failed signed read consumes nothing");
                    core::mem::forget(e);
                }
            }
            let mut r = mk(&all, TOTAL, B, POS);
            match r.peek_signed_bits::<i16>(n as u32) {
                Ok(v) => {
                    let raw = model_bits(&all, POS, n) as i64;
                    let want = if raw >= (1i64 << (n - 1)) { raw - (1i64 << n) } else { raw };
                    chk!(s, fits && v as i64 == want && r.bits_read == POS, "reader.peek_signed_bits.post: sign-extended value, nothing consumed");
                }
                Err(e) => {
                    chk!(s, !fits && r.bits_read == POS, "reader.peek_signed_bits.err_pos");
                    core::mem::forget(e);
                }
            }
        }
        n += 1;
    }
    s.reach();
}

// ---- start code recognition -------------------------------------------------------------------------------------------------------------------------
fn sc_at(all: &[u8; MAXB], total: usize, p: usize) -> bool {
    p + 17 <= total * 8 && model_bits(all, p, 17) == 1
}
fn h_start_code<S: Src, const TOTAL: usize, const B: usize, const POS: usize>(s: &mut S) {
    let all: [u8; MAXB] = s.arr();
    let realign = (8 - POS % 8) % 8;
    let mut r = mk(&all, TOTAL, B, POS);
    match r.recognize_start_code(false) {
        Ok(Some(k)) => {
            let k = k as usize;
            chk!(s, k <= 8 && k <= realign + 1, "reader.recognize_start_code.window: at most the stuffing up to the byte boundary (< 8 bits) plus one is skipped");
            chk!(s, sc_at(&all, TOTAL, POS + k), "reader.recognize_start_code.is_start_code: sixteen zero bits and a one begin at the reported offset");
            let mut j = 0;
            let mut nearest = true;
            while j < k {
                if sc_at(&all, TOTAL, POS + j) {
                    nearest = false;
                }
                j += 1;
            }
            chk!(s, nearest, "reader.recognize_start_code.nearest: no start code begins at a smaller offset");
        }
        Ok(None) => {
            let mut j = 0;
            let mut none = true;
            while j <= realign + 1 {
                if sc_at(&all, TOTAL, POS + j) {
                    none = false;
                }
                j += 1;
            }
            chk!(s, none, "reader.recognize_start_code.none: None only when no start code begins within the window");
        }
        Err(e) => {
            // end of data while looking
            chk!(s, is_eof(&e), "reader.recognize_start_code.err: only end-of-data");
            core::mem::forget(e);
        }
    }
    chk!(s, r.bits_read == POS, "reader.recognize_start_code.post_pos: recognition consumes nothing");
    // resynchronisation mode: the nearest start code anywhere ahead, or end-of-data
    let mut r = mk(&all, TOTAL, B, POS);
    match r.recognize_start_code(true) {
        Ok(Some(k)) => {
            let k = k as usize;
            let mut j = 0;
            let mut nearest = sc_at(&all, TOTAL, POS + k);
            while j < k {
                if sc_at(&all, TOTAL, POS + j) {
                    nearest = false;
                }
                j += 1;
            }
            chk!(s, nearest, "reader.recognize_start_code.in_error_nearest: the nearest start code ahead");
        }
        Ok(None) => chk!(s, false, "reader.recognize_start_code.in_error_never_none"),
        Err(e) => {
            let mut j = 0;
            let mut none = true;
            while POS + j + 17 <= TOTAL * 8 {
                if sc_at(&all, TOTAL, POS + j) {
                    none = false;
                }
                j += 1;
            }
            chk!(s, none && is_eof(&e), "reader.recognize_start_code.in_error_eof: end-of-data only when no start code is ahead");
            core::mem::forget(e);
        }
    }
    chk!(s, r.bits_read == POS, "reader.recognize_start_code.post_pos: recognition consumes nothing");
    s.reach();
}

// ---- transactions, look-ahead, commit ------------------------------------------------------------------------------------------------------------------
// closure: read N1 bits, then finish with outcome OUT (0: Ok(Some), 1: Ok(None), 2: Err)
fn h_transactions<S: Src, const TOTAL: usize, const B: usize, const POS: usize, const N1: usize>(s: &mut S) {
    let all: [u8; MAXB] = s.arr();
    let fits = POS + N1 <= TOTAL * 8;
    let mut out = 0;
    while out < 3 {
        // with_transaction: position kept iff the closure succeeded
        let mut r = mk(&all, TOTAL, B, POS);
        let res = r.with_transaction(|r| {
            let v: u32 = r.read_bits(N1 as u32)?;
            if out == 2 {
                Err(Error::InvalidBitstream)
            } else {
                Ok(v)
            }
        });
        match res {
            Ok(v) => chk!(s, fits && out != 2 && v as u64 == model_bits(&all, POS, N1) && r.bits_read == POS + N1, "reader.with_transaction.ok: a successful transaction keeps its reads"),
            Err(e) => {
                chk!(s, (!fits || out == 2) && r.bits_read == POS, "reader.with_transaction.err: a failed transaction consumes nothing");
                core::mem::forget(e);
            }
        }
        // with_transaction_union: position kept iff Ok(Some)
        let mut r = mk(&all, TOTAL, B, POS);
        let res = r.with_transaction_union(|r| {
            let v: u32 = r.read_bits(N1 as u32)?;
            if out == 2 {
                Err(Error::InvalidBitstream)
            } else if out == 1 {
                Ok(None)
            } else {
                Ok(Some(v))
            }
        });
        match res {
            Ok(Some(v)) => chk!(s, fits && out == 0 && v as u64 == model_bits(&all, POS, N1) && r.bits_read == POS + N1, "reader.with_transaction_union.some: Ok(Some) keeps its reads"),
            Ok(None) => chk!(s, fits && out == 1 && r.bits_read == POS, "reader.with_transaction_union.none: Ok(None) consumes nothing"),
            Err(e) => {
                chk!(s, (!fits || out == 2) && r.bits_read == POS, "reader.with_transaction_union.err: Err consumes nothing");
                core::mem::forget(e);
            }
        }
        // with_lookahead: never consumes
        let mut r = mk(&all, TOTAL, B, POS);
        let res = r.with_lookahead(|r| {
            let v: u32 = r.read_bits(N1 as u32)?;
            if out == 2 {
                Err(Error::InvalidBitstream)
            } else {
                Ok(v)
            }
        });
        match res {
            Ok(v) => chk!(s, fits && out != 2 && v as u64 == model_bits(&all, POS, N1), "reader.with_lookahead.value: the look-ahead sees the bits at the position"),
            Err(e) => {
                chk!(s, !fits || out == 2, "reader.with_lookahead.err");
                core::mem::forget(e);
            }
        }
        chk!(s, r.bits_read == POS, "reader.with_lookahead.post_pos: a look-ahead consumes nothing");
        // the bits are still there afterwards
        if POS + 8 <= TOTAL * 8 {
            match r.read_bits::<u32>(8) {
                Ok(v) => chk!(s, v as u64 == model_bits(&all, POS, 8), "reader.with_lookahead.redeliver: the bits looked at are delivered again"),
                Err(e) => {
                    chk!(s, false, "reader.with_lookahead.redeliver: the bits looked at are delivered again");
                    core::mem::forget(e);
                }
            }
        }
        out += 1;
    }
    s.reach();
}

// nested transactions (the parsers nest them: decode_macroblock -> decode_dquant / decode_motion_vector, decode_picture -> field parsers):
// an inner transaction that SUCCEEDS inside an outer one that fails / yields None / is a look-ahead must not make its reads permanent
fn h_nested<S: Src, const TOTAL: usize, const B: usize, const POS: usize, const N1: usize, const N2: usize>(s: &mut S) {
    let all: [u8; MAXB] = s.arr();
    let fits = POS + N1 + N2 <= TOTAL * 8;
    let mut kind = 0;
    while kind < 4 {
        let mut r = mk(&all, TOTAL, B, POS);
        // kind 0: outer with_transaction fails after the inner success; 1: outer union yields None; 2: outer look-ahead; 3: outer succeeds
        let res: Result<Option<(u32, u32)>> = match kind {
            0 => r.with_transaction(|r| {
                let a: u32 = r.with_transaction(|r2| r2.read_bits(N1 as u32))?;
                let _b: u32 = r.read_bits(N2 as u32)?;
                let _ = a;
                Err(Error::InvalidBitstream)
            }),
            1 => r.with_transaction_union(|r| {
                let _a: u32 = r.with_transaction(|r2| r2.read_bits(N1 as u32))?;
                let _b: u32 = r.read_bits(N2 as u32)?;
                Ok(None)
            }),
            2 => r.with_lookahead(|r| {
                let a: u32 = r.with_transaction(|r2| r2.read_bits(N1 as u32))?;
                let b: u32 = r.read_bits(N2 as u32)?;
                Ok(Some((a, b)))
            }),
            _ => r.with_transaction(|r| {
                let a: u32 = r.with_transaction(|r2| r2.read_bits(N1 as u32))?;
                let b: u32 = r.read_bits(N2 as u32)?;
                Ok(Some((a, b)))
            }),
        };
        match res {
            Ok(Some((a, b))) => {
                chk!(s, fits && kind >= 2 && a as u64 == model_bits(&all, POS, N1) && b as u64 == model_bits(&all, POS + N1, N2), "reader.nested.values: the inner transaction and the following read deliver consecutive bits");
                chk!(s, r.bits_read == if kind == 2 { POS } else { POS + N1 + N2 }, "reader.nested.ok_pos: an outer look-ahead consumes nothing, an outer success keeps both reads");
            }
            Ok(None) => chk!(s, fits && kind == 1 && r.bits_read == POS, "reader.nested.none_pos: a union that yields None consumes nothing although its inner transaction succeeded"),
            Err(e) => {
                chk!(s, (!fits || kind == 0) && is_eof(&e) == !fits, "reader.nested.err_kind: the closure's own error (or end-of-data) is reported, not an internal error");
                chk!(s, r.bits_read == POS, "reader.nested.err_pos: a failed outer transaction consumes nothing although its inner transaction succeeded");
                core::mem::forget(e);
            }
        }
        // whatever happened, the bits at the resulting position are still delivered
        let p = r.bits_read;
        if p == POS && POS + 8 <= TOTAL * 8 {
            match r.read_bits::<u32>(8) {
                Ok(v) => chk!(s, v as u64 == model_bits(&all, POS, 8), "reader.nested.redeliver: after the roll-back the same bits are delivered again"),
                Err(e) => {
                    chk!(s, false, "reader.nested.redeliver: after the roll-back the same bits are delivered again");
                    core::mem::forget(e);
                }
            }
        }
        kind += 1;
    }
    s.reach();
}

// commit: drops exactly the consumed whole bytes; every bit from the position on is delivered afterwards, once, in order
fn h_commit<S: Src, const TOTAL: usize, const B: usize, const POS: usize>(s: &mut S) {
    let all: [u8; MAXB] = s.arr();
    let mut r = mk(&all, TOTAL, B, POS);
    r.commit();
    chk!(s, r.bits_read == POS % 8 && r.buffer.len() == B - POS / 8, "reader.commit.post_shape: only whole consumed bytes leave the buffer, the sub-byte offset is kept");
    let rest = TOTAL * 8 - POS;
    let take = if rest > 32 { 32 } else { rest };
    match r.read_bits::<u32>(take as u32) {
        Ok(v) => chk!(s, v as u64 == model_bits(&all, POS, take), "reader.commit.post_bits: after a commit the bits from the position on are delivered unchanged"),
        Err(e) => {
            chk!(s, false, "reader.commit.post_bits: after a commit the bits from the position on are delivered unchanged");
            core::mem::forget(e);
        }
    }
    s.reach();
}

// ---- variable-length codes ------------------------------------------------------------------------------------------------------------------------------
// a 7-entry table with code words 0, 10, 110, 1110, 1111 (leaves carry their index)
const VLC: [Entry<u8>; 9] = [
    Entry::Fork(1, 2), Entry::End(10), Entry::Fork(3, 4), Entry::End(20), Entry::Fork(5, 6), Entry::End(30), Entry::Fork(7, 8), Entry::End(40), Entry::End(50),
];
fn walk(all: &[u8; MAXB], total: usize, pos: usize) -> Option<(u8, usize)> {
    let mut idx = 0usize;
    let mut used = 0usize;
    let mut step = 0;
    while step < 6 {
        match VLC[idx] {
            Entry::End(t) => return Some((t, used)),
            Entry::Fork(z, o) => {
                if pos + used + 1 > total * 8 {
                    return None;
                }
                idx = if model_bits(all, pos + used, 1) == 0 { z } else { o };
                used += 1;
            }
        }
        step += 1;
    }
    None
}
fn h_vlc<S: Src, const TOTAL: usize, const B: usize, const POS: usize>(s: &mut S) {
    let all: [u8; MAXB] = s.arr();
    let mut r = mk(&all, TOTAL, B, POS);
    match (r.read_vlc(&VLC[..]), walk(&all, TOTAL, POS)) {
        (Ok(t), Some((want, used))) => chk!(s, t == want && r.bits_read == POS + used, "reader.read_vlc.post: the leaf reached by following the bits; exactly the code word is consumed"),
        (Err(e), None) => {
            chk!(s, is_eof(&e), "reader.read_vlc.eof: end-of-data when the code word is cut off");
            core::mem::forget(e);
        }
        (Ok(_), None) => chk!(s, false, "reader.read_vlc.post: a cut-off code word is not decoded"),
        (Err(e), Some(_)) => {
            chk!(s, false, "reader.read_vlc.post: a complete code word is decoded");
            core::mem::forget(e);
        }
    }
    // an invalid table index is reported, not followed
    let bad: [Entry<u8>; 1] = [Entry::Fork(5, 6)];
    let mut r = mk(&all, TOTAL, B, POS);
    if POS + 1 <= TOTAL * 8 {
        match r.read_vlc(&bad[..]) {
            Ok(_) => chk!(s, false, "reader.read_vlc.bad_table: an index outside the table is an InternalDecoderError"),
            Err(e) => {
                chk!(s, matches!(e, Error::InternalDecoderError), "reader.read_vlc.bad_table: an index outside the table is an InternalDecoderError");
                core::mem::forget(e);
            }
        }
    }
    s.reach();
}

// ---- C05: a source that runs dry and later delivers more (append) ------------------------------------------------------------------------------------------
pub struct Growing {
    data: [u8; MAXB],
    avail: usize,
    pos: usize,
}
impl std::io::Read for Growing {
    fn read(&mut self, buf: &mut [u8]) -> std::io::Result<usize> {
        if buf.is_empty() || self.pos >= self.avail {
            return Ok(0);
        }
        buf[0] = self.data[self.pos];
        self.pos += 1;
        Ok(1)
    }
}
// ---- the ring buffer wraps ------------------------------------------------------------------------------------------------------------------------------
// 10-byte stream: eight bytes are buffered (the VecDeque's first allocation for u8 holds 8), POS bits consumed, commit() drains the whole consumed bytes (the ring's
// head moves), and the next read has to fetch bytes that land BEFORE the head physically: the buffer is no longer one contiguous slice. The
// Verus unit reasons about the VecDeque's abstract sequence; this harness runs the compiled code over the wrapped ring.
fn model6(all: &[u8; 10], pos: usize, n: usize) -> u64 {
    let mut acc: u64 = 0;
    let mut i = 0;
    while i < n {
        let p = pos + i;
        acc = (acc << 1) | ((all[p / 8] >> (7 - (p % 8))) & 1) as u64;
        i += 1;
    }
    acc
}
fn h_wrap<S: Src, const POS: usize, const N1: usize, const N2: usize>(s: &mut S) {
    let all: [u8; 10] = s.arr();
    let mut r = H263Reader::from_source(&all[8..10]);
    let mut i = 0;
    while i < 8 {
        r.buffer.push_back(all[i]);
        i += 1;
    }
    r.bits_read = POS;
    r.commit();
    match r.peek_bits::<u32>(N1 as u32) {
        Ok(v) => chk!(s, v as u64 == model6(&all, POS, N1), "reader.wrap.peek: a peek across the physical wrap of the ring returns the stream's bits"),
        Err(e) => {
            chk!(s, false, "reader.wrap.peek: a peek across the physical wrap of the ring returns the stream's bits");
            core::mem::forget(e);
        }
    }
    match r.read_bits::<u32>(N1 as u32) {
        Ok(v) => chk!(s, v as u64 == model6(&all, POS, N1), "reader.wrap.read: a read across the physical wrap of the ring returns the stream's bits"),
        Err(e) => {
            chk!(s, false, "reader.wrap.read: a read across the physical wrap of the ring returns the stream's bits");
            core::mem::forget(e);
        }
    }
    match r.read_bits::<u32>(N2 as u32) {
        Ok(v) => chk!(s, v as u64 == model6(&all, POS + N1, N2), "reader.wrap.next: the bits after it follow in order"),
        Err(e) => {
            chk!(s, false, "reader.wrap.next: the bits after it follow in order");
            core::mem::forget(e);
        }
    }
    s.reach();
}

// the first read asks for N bits while only FIRST bytes have arrived: it fails without consuming; after the rest is appended the same read
// returns what an undivided delivery returns
fn h_append<S: Src, const FIRST: usize, const N: usize>(s: &mut S) {
    let all: [u8; MAXB] = s.arr();
    let mut r = H263Reader::from_source(Growing { data: all, avail: FIRST, pos: 0 });
    let first = r.read_bits::<u32>(N as u32);
    match first {
        Ok(v) => chk!(s, N <= FIRST * 8 && v as u64 == model_bits(&all, 0, N), "reader.append.first_ok"),
        Err(e) => {
            chk!(s, N > FIRST * 8 && is_eof(&e) && r.bits_read == 0, "reader.append.first_fails_clean: lack of data fails without consuming");
            core::mem::forget(e);
            r.source.avail = MAXB;
            match r.read_bits::<u32>(N as u32) {
                Ok(v) => chk!(s, v as u64 == model_bits(&all, 0, N) && r.bits_read == N, "reader.append.retry: after more data is appended the read behaves as if all data had been there from the start"),
                Err(e2) => {
                    chk!(s, false, "reader.append.retry: after more data is appended the read behaves as if all data had been there from the start");
                    core::mem::forget(e2);
                }
            }
        }
    }
    s.reach();
}

#[cfg(kani)]
mod proofs {
    use super::*;
    macro_rules! shape {
        ($name:ident, $f:ident, $u:expr, $($g:expr),*) => {
            #[kani::proof]
            #[kani::unwind($u)]
            fn $name() {
                $f::<KSrc, $($g),*>(&mut KSrc)
            }
        };
    }
    include!("/verif/hooks/h263/parser/reader_shapes.rs");
}

#[cfg(all(test, not(kani)))]
mod replay {
    use super::*;
    macro_rules! shape {
        ($name:ident, $f:ident, $u:expr, $($g:expr),*) => {
            pub fn $name(r: &mut RSrc) {
                $f::<RSrc, $($g),*>(r)
            }
        };
    }
    mod shapes {
        use super::*;
        include!("/verif/hooks/h263/parser/reader_shapes.rs");
    }
    fn dispatch(name: &str, r: &mut RSrc) -> bool {
        include!("/verif/hooks/h263/parser/reader_replay_arms.rs")
    }
    #[test]
    fn verif_replay() {
        verif_replay_main(dispatch)
    }
}
