// Hook module of h263/src/decoder/picture.rs: R6 discharge — the float sub-expression replaced in the Verus unit by
// `verif_ceil_half_f32` is proved equal to (x + 1) / 2 for all 65,536 values; DecodedPicture::new plane sizes on concrete formats.
#![allow(dead_code, unused_imports)]
use super::*;
use crate::types::{CustomPictureFormat, PictureOption, PictureTypeCode, PixelAspectRatio};

include!("/verif/hooks/common.rs");

fn h_ceil_half<S: Src>(s: &mut S) {
    let w = s.u16();
    // the SAME expression text as in DecodedPicture::new
    let chroma_w = (w as f32 / 2.0).ceil() as usize;
    chk!(s, chroma_w == (w as usize + 1) / 2, "picture.new.ceil_half: (w as f32 / 2.0).ceil() as usize == (w + 1) / 2 for every u16");
    s.reach();
}

fn header() -> Picture {
    Picture {
        version: None, temporal_reference: 0, format: None, options: PictureOption::empty(), has_plusptype: false, has_opptype: false,
        picture_type: PictureTypeCode::IFrame, motion_vector_range: None, slice_submode: None, scalability_layer: None,
        reference_picture_selection_mode: None, prediction_reference: None, backchannel_message: None, reference_picture_resampling: None,
        quantizer: 1, multiplex_bitstream: None, pb_reference: None, pb_quantizer: None, extra: Vec::new(),
    }
}
// C13 on the real constructor for symbolic small sizes (w, h <= 40): plane lengths and chroma row length
fn h_new_sizes<S: Src>(s: &mut S) {
    let (w, h) = (s.u8() as u16, s.u8() as u16);
    s.assume(w <= 40 && h <= 40);
    let fmt = SourceFormat::Extended(CustomPictureFormat { pixel_aspect_ratio: PixelAspectRatio::Square, picture_width_indication: w, picture_height_indication: h });
    match DecodedPicture::new(header(), fmt) {
        Some(p) => {
            let (cw, ch) = ((w as usize + 1) / 2, (h as usize + 1) / 2);
            chk!(s, p.as_luma().len() == w as usize * h as usize, "picture.new.post_luma_len: luma plane holds width*height samples");
            chk!(s, p.as_chroma_b().len() == cw * ch && p.as_chroma_r().len() == cw * ch, "picture.new.post_chroma_len: chroma planes hold ceil(w/2)*ceil(h/2) samples");
            chk!(s, p.chroma_samples_per_row() == cw, "picture.new.post_chroma_row: chroma row length == ceil(w/2)");
        }
        None => {
            chk!(s, false, "picture.new.post_some: a sized format yields a picture");
        }
    }
    chk!(s, DecodedPicture::new(header(), SourceFormat::Reserved).is_none(), "picture.new.post_none: the reserved format yields no picture");
    s.reach();
}

#[cfg(kani)]
mod proofs {
    use super::*;
    #[kani::proof]
    fn ceil_half() {
        h_ceil_half(&mut KSrc)
    }
    #[kani::proof]
    #[kani::unwind(4)]
    fn new_sizes() {
        h_new_sizes(&mut KSrc)
    }
}

#[cfg(all(test, not(kani)))]
mod replay {
    use super::*;
    fn dispatch(name: &str, r: &mut RSrc) -> bool {
        match name {
            "ceil_half" => h_ceil_half(r),
            "new_sizes" => h_new_sizes(r),
            _ => return false,
        }
        true
    }
    #[test]
    fn verif_replay() {
        verif_replay_main(dispatch)
    }
}
