// Hook module of h263/src/decoder/state.rs: discharge of the R6 helpers and of the bitflags model (A-BITFLAGS) that the Verus
// state unit assumes — each proved on the REAL code (real lazy_static, real bitflags-generated operators) for its whole domain.
#![allow(dead_code, unused_imports)]
use super::*;

include!("/verif/hooks/common.rs");

fn h_ceil_div16<S: Src>(s: &mut S) {
    let x = s.u16();
    // the SAME expression text as in decode_next_picture
    let mb = (x as f64 / 16.0).ceil() as usize;
    chk!(s, mb == (x as usize + 15) / 16, "state.decode_body.ceil_div16: (x as f64 / 16.0).ceil() as usize == (x + 15) / 16 for every u16");
    s.reach();
}
fn h_option_masks<S: Src>(s: &mut S) {
    chk!(s, (*OPPTYPE_OPTIONS).bits() == 0x1FF8, "types.OPPTYPE_OPTIONS.value: bits 3..=12");
    chk!(s, (*MPPTYPE_OPTIONS).bits() == 0xE000, "types.MPPTYPE_OPTIONS.value: bits 13..=15");
    s.reach();
}
// the model `struct PictureOption { bits }` with |, &, ! (truncating to the 17 defined flags), contains, empty
fn h_bitflags_model<S: Src>(s: &mut S) {
    let (a, b) = (s.u32() & 0x1FFFF, s.u32() & 0x1FFFF);
    let (fa, fb) = (PictureOption::from_bits_truncate(a), PictureOption::from_bits_truncate(b));
    chk!(s, fa.bits() == a && fb.bits() == b, "bitflags.PictureOption.bits: from_bits_truncate keeps the 17 defined flags");
    chk!(s, (fa | fb).bits() == (a | b), "bitflags.PictureOption.bitor: bits == a | b");
    chk!(s, (fa & fb).bits() == (a & b), "bitflags.PictureOption.bitand: bits == a & b");
    chk!(s, (!fa).bits() == (!a & 0x1FFFF), "bitflags.PictureOption.not: bits == !a truncated to the defined flags");
    chk!(s, fa.contains(fb) == (a & b == b), "bitflags.PictureOption.contains: (a & b) == b");
    let mut acc = fa;
    acc |= fb;
    chk!(s, acc.bits() == (a | b), "bitflags.PictureOption.bitor_assign: `x |= y` == `x = x | y` (rewrite rule R12)");
    chk!(s, PictureOption::empty().bits() == 0, "bitflags.PictureOption.empty: no bits");
    chk!(s, PictureOption::UNRESTRICTED_MOTION_VECTORS.bits() == 0b1000 && PictureOption::MODIFIED_QUANTIZATION.bits() == 0x1000 && PictureOption::USE_DEBLOCKER.bits() == 0x10000,
         "bitflags.PictureOption.constants");
    let d = s.u8() & 3;
    let fd = DecoderOption::from_bits_truncate(d);
    chk!(s, fd.contains(DecoderOption::SORENSON_SPARK_BITSTREAM) == (d & 1 == 1) && fd.contains(DecoderOption::USE_SCALABILITY_MODE) == (d & 2 == 2), "bitflags.DecoderOption.contains");
    s.reach();
}

#[cfg(kani)]
mod proofs {
    use super::*;
    #[kani::proof]
    fn ceil_div16() {
        h_ceil_div16(&mut KSrc)
    }
    #[kani::proof]
    #[kani::unwind(8)]
    fn option_masks() {
        h_option_masks(&mut KSrc)
    }
    #[kani::proof]
    fn bitflags_model() {
        h_bitflags_model(&mut KSrc)
    }
}

#[cfg(all(test, not(kani)))]
mod replay {
    use super::*;
    fn dispatch(name: &str, r: &mut RSrc) -> bool {
        match name {
            "ceil_div16" => h_ceil_div16(r),
            "option_masks" => h_option_masks(r),
            "bitflags_model" => h_bitflags_model(r),
            _ => return false,
        }
        true
    }
    #[test]
    fn verif_replay() {
        verif_replay_main(dispatch)
    }
}
