// Hook module of h263/src/decoder/state.rs: discharge of the R6 helpers and of the bitflags model (A-BITFLAGS) that the Verus
// state unit assumes — each proved on the REAL code (real lazy_static, real bitflags-generated operators) for its whole domain.
#![allow(dead_code, unused_imports)]
use super::*;
#[allow(unused_imports)]
use crate::parser::H263Reader;

include!("/verif/hooks/common.rs");

fn h_ceil_div16<S: Src>(s: &mut S) {
    let x = s.u16();
    // the SAME expression text as in decode_next_picture
    let mb = (x as f64 / 16.0).ceil() as usize;
    chk!(s, mb == (x as usize + 15) / 16, "state.decode_body.ceil_div16: (x as f64 / 16.0).ceil() as usize == (x + 15) / 16 for every u16");
    s.reach();
}
fn h_option_masks<S: Src>(s: &mut S) {
    chk!(s, (*OPPTYPE_OPTIONS).bits() == 0x1FF8, "types.OPPTYPE_OPTIONS.value: bits 3..=12");
    chk!(s, (*MPPTYPE_OPTIONS).bits() == 0xE000, "types.MPPTYPE_OPTIONS.value: bits 13..=15");
    s.reach();
}
// the model `struct PictureOption { bits }` with |, &, ! (truncating to the 17 defined flags), contains, empty
fn h_bitflags_model<S: Src>(s: &mut S) {
    let (a, b) = (s.u32() & 0x1FFFF, s.u32() & 0x1FFFF);
    let (fa, fb) = (PictureOption::from_bits_truncate(a), PictureOption::from_bits_truncate(b));
    chk!(s, fa.bits() == a && fb.bits() == b, "bitflags.PictureOption.bits: from_bits_truncate keeps the 17 defined flags");
    chk!(s, (fa | fb).bits() == (a | b), "bitflags.PictureOption.bitor: bits == a | b");
    chk!(s, (fa & fb).bits() == (a & b), "bitflags.PictureOption.bitand: bits == a & b");
    chk!(s, (!fa).bits() == (!a & 0x1FFFF), "bitflags.PictureOption.not: bits == !a truncated to the defined flags");
    chk!(s, fa.contains(fb) == (a & b == b), "bitflags.PictureOption.contains: (a & b) == b");
    let mut acc = fa;
    acc |= fb;
    chk!(s, acc.bits() == (a | b), "bitflags.PictureOption.bitor_assign: `x |= y` == `x = x | y` (rewrite rule R12)");
    chk!(s, PictureOption::empty().bits() == 0, "bitflags.PictureOption.empty: no bits");
    chk!(s, PictureOption::UNRESTRICTED_MOTION_VECTORS.bits() == 0b1000 && PictureOption::MODIFIED_QUANTIZATION.bits() == 0x1000 && PictureOption::USE_DEBLOCKER.bits() == 0x10000,
         "bitflags.PictureOption.constants");
    let d = s.u8() & 3;
    let fd = DecoderOption::from_bits_truncate(d);
    chk!(s, fd.contains(DecoderOption::SORENSON_SPARK_BITSTREAM) == (d & 1 == 1) && fd.contains(DecoderOption::USE_SCALABILITY_MODE) == (d & 2 == 2), "bitflags.DecoderOption.contains");
    s.reach();
}

// ---------------------------------------------------------------------------------------------------------------------------------
// native witness search for the state machine contracts (C04, C05, C15): a reference MODEL of (last picture, reference picture) is run
// next to the real decoder on a history drawn from the witness bytes: Sorenson I pictures (flat, INTRADC code c => every sample == c),
// P and disposable P pictures made of not-coded macroblocks (=> a copy of the reference), rejected pictures (invalid INTRADC after the
// header, truncated data, an invalid macroblock header in the last macroblock), explicit clean-ups; temporal references are arbitrary bytes (often equal / 255).
#[cfg(not(kani))]
struct HBw {
    buf: Vec<u8>,
    pos: usize,
}
#[cfg(not(kani))]
impl HBw {
    fn put(&mut self, val: u32, n: usize) {
        for k in 0..n {
            if self.pos / 8 >= self.buf.len() {
                self.buf.push(0);
            }
            let bit = ((val >> (n - 1 - k)) & 1) as u8;
            self.buf[self.pos / 8] |= bit << (7 - (self.pos % 8));
            self.pos += 1;
        }
    }
    fn align(&mut self) {
        while self.pos % 8 != 0 {
            self.put(0, 1);
        }
    }
}
#[cfg(not(kani))]
fn sor_picture(tr: u8, w: u8, h: u8, ptype: u32, dc: u8, bad: u8, intra_in_p: bool, stuff: u8, keep: usize) -> Vec<u8> {
    let mut b = HBw { buf: Vec::new(), pos: 0 };
    b.put(1, 17);
    b.put(0, 5);
    b.put(tr as u32, 8);
    b.put(0, 3);
    b.put(w as u32, 8);
    b.put(h as u32, 8);
    b.put(ptype, 2);
    b.put(0, 1);
    b.put(5, 5);
    b.put(0, 1);
    let n = ((w as usize + 15) / 16) * ((h as usize + 15) / 16);
    for k in 0..n {
        // bad 4: the data of a predicted picture ends after `keep` macroblocks (end of data = end of picture; the rest is not coded)
        if bad == 4 && k >= keep {
            break;
        }
        // stuffing code words (MCBPC 0000 0000 1; after COD = 0 in predicted pictures) before the last macroblock: they are not macroblocks
        if k == n - 1 && bad == 0 {
            for _ in 0..stuff {
                if ptype != 0 {
                    b.put(0, 1);
                }
                b.put(1, 9);
            }
        }
        if ptype == 0 {
            b.put(1, 1); // MCBPC: INTRA, no chroma coefficients
            b.put(0b0011, 4); // CBPY: no luma coefficients
            for blk in 0..6 {
                // bad 1: an invalid INTRADC code in the last macroblock (fails after the header and after earlier macroblocks)
                let code = if bad == 1 && k == n - 1 && blk == 3 { 0 } else { dc };
                b.put(code as u32, 8);
            }
        } else if bad == 3 && k == n - 1 {
            b.put(0, 1); // COD = 0 followed by an invalid MCBPC code word (ten zero bits): fails in the last macroblock
            b.put(0, 10);
        } else if intra_in_p {
            b.put(0, 1); // COD = 0
            b.put(0b00011, 5); // MCBPC (P picture table): INTRA, no chroma coefficients
            b.put(0b0011, 4); // CBPY (intra sense): no luma coefficients
            for _ in 0..6 {
                b.put(dc as u32, 8);
            }
        } else {
            b.put(1, 1); // COD = 1: not coded
        }
    }
    b.align();
    if bad == 2 {
        b.buf.truncate(4); // truncated inside the header
    }
    b.buf
}
#[cfg(not(kani))]
fn h_history_dyn(s: &mut RSrc) {
    type Planes = (Vec<u8>, Vec<u8>, Vec<u8>, u16);
    let mut st = H263State::new(DecoderOption::SORENSON_SPARK_BITSTREAM);
    let mut last: Option<Planes> = None;
    let mut reference: Option<Planes> = None;
    // picture sizes: whole macroblocks, and sizes whose last macroblock row / column is only partly inside the picture
    let (w, h) = [(16u8, 16u8), (32, 16), (24, 8), (40, 24)][(s.u8() % 4) as usize];
    let steps = 2 + (s.u8() % 7) as usize;
    let mut ok_last = true;
    let mut ok_err = true;
    let mut ok_acc = true;
    let mut ok_one = true;
    for _ in 0..steps {
        let op = s.u8() % 8;
        let tr = match s.u8() % 4 {
            0 => 255,
            1 => 7,
            2 => reference.as_ref().map(|r| r.3 as u8).unwrap_or(3),
            _ => s.u8(),
        };
        let dc = 1 + s.u8() % 120;
        if op == 7 {
            st.cleanup_buffers();
        } else {
            let (ptype, bad) = match op {
                0 | 1 => (0, 0),
                2 => (1, 0),
                3 => (1, if s.bool() { 4 } else { 0 }),
                4 => (2, 0),
                5 => (0, 1),
                _ => {
                    let t = if s.bool() { 1 } else { 0 };
                    let b = 2 + s.u8() % 2;
                    (if b == 3 { 1 } else { t }, b)
                }
            };
            let intra_in_p = ptype != 0 && bad == 0 && s.bool();
            let stuff = if s.u8() % 4 == 0 { 1 + s.u8() % 2 } else { 0 };
            let nmb = ((w as usize + 15) / 16) * ((h as usize + 15) / 16);
            let keep = (s.u8() as usize) % nmb;
            let mut data = sor_picture(tr, w, h, ptype, dc, bad, intra_in_p, stuff, keep);
            // sometimes a second picture follows in the same reader (C15: one call consumes exactly one picture)
            let second = bad == 0 && s.u8() % 3 == 0;
            let dc2 = 1 + s.u8() % 120;
            let first_len = data.len();
            if second {
                data.extend_from_slice(&sor_picture(tr.wrapping_add(1), w, h, 0, dc2, 0, false, 0, 0));
            }
            let mut rd = H263Reader::from_source(&data[..]);
            let r = st.decode_next_picture(&mut rd);
            let n = w as usize * h as usize;
            let cn = ((w as usize + 1) / 2) * ((h as usize + 1) / 2);
            // what the model expects
            let expect: Option<Planes> = if bad == 4 {
                // early end of data in a predicted picture: the macroblocks not present are not coded, i.e. copies of the reference
                reference.as_ref().map(|r| (r.0.clone(), r.1.clone(), r.2.clone(), tr as u16))
            } else if bad != 0 {
                None
            } else if ptype == 0 || intra_in_p {
                // (a P picture made of INTRA macroblocks needs no reference)
                Some((vec![dc; n], vec![dc; cn], vec![dc; cn], tr as u16))
            } else {
                reference.as_ref().map(|r| (r.0.clone(), r.1.clone(), r.2.clone(), tr as u16))
            };
            match (&r, &expect) {
                (Ok(()), Some(p)) => {
                    last = Some(p.clone());
                    if ptype != 2 {
                        reference = Some(p.clone());
                    }
                    if second {
                        // the next call on the same reader must deliver the second picture, whole
                        let r2 = st.decode_next_picture(&mut rd);
                        let p2: Planes = (vec![dc2; n], vec![dc2; cn], vec![dc2; cn], tr.wrapping_add(1) as u16);
                        let same = match st.get_last_picture() {
                            Some(q) => {
                                let (y, cb, cr) = q.as_yuv();
                                y == &p2.0[..] && cb == &p2.1[..] && cr == &p2.2[..] && q.as_header().temporal_reference == p2.3
                            }
                            None => false,
                        };
                        if r2.is_err() || !same {
                            ok_one = false;
                        }
                        last = Some(p2.clone());
                        reference = Some(p2);
                    } else {
                        // nothing but (less than a byte of) stuffing is left: the next call finds no picture
                        let _ = first_len;
                    }
                }
                (Err(_), None) => {
                    // the reader must still deliver the same bits
                    let first: u32 = rd.read_bits(17).unwrap_or(99);
                    if data.len() >= 3 && first != 1 {
                        ok_err = false;
                    }
                }
                (Ok(()), None) => ok_acc = false,
                (Err(_), Some(_)) => ok_acc = false,
            }
        }
        // the decoder must report exactly the model's last picture
        match (st.get_last_picture(), &last) {
            (None, None) => {}
            (Some(p), Some(m)) => {
                let (y, cb, cr) = p.as_yuv();
                if y != &m.0[..] || cb != &m.1[..] || cr != &m.2[..] || p.as_header().temporal_reference != m.3 {
                    ok_last = false;
                }
            }
            _ => ok_last = false,
        }
    }
    chk!(s, ok_acc, "state.history.accept_reject: valid pictures (stuffing included) are accepted (predicted ones need a reference), invalid ones rejected [C04,C05,C15,C02,C03]");
    chk!(s, ok_last, "state.history.last_and_reference: after every call the last picture is the last accepted one, a failed call changes nothing, and predicted pictures are copies of the last non-disposable picture [C04,C05,C03,C02]");
    chk!(s, ok_err, "state.history.err_keeps_reader: after a failed decode the reader delivers the same bits again [C05]");
    chk!(s, ok_one, "state.history.one_picture_per_call: with two pictures in one reader the first call decodes the first and the second call the second [C15]");
    s.reach();
}

// native witness search for the size arithmetic of the decode loop (C01, C13): a Sorenson picture header with a 16-bit custom size, one
// dimension drawn from the boundary values of u16 and the other small, followed by a few intra macroblocks (then end of data): the call
// must return (Ok or Err) without panicking, and a picture it stores must have the plane sizes of its format
#[cfg(not(kani))]
fn h_dims_dyn(s: &mut RSrc) {
    const EDGE: [u16; 16] = [0, 1, 2, 15, 16, 17, 31, 32, 33, 255, 256, 65519, 65520, 65521, 65534, 65535];
    let big = EDGE[(s.u8() % 16) as usize];
    let small = [0u16, 1, 8, 16, 17, 40][(s.u8() % 6) as usize];
    let (w, h) = if s.bool() { (big, small) } else { (small, big) };
    let nmb = (s.u8() % 4) as usize;
    let dc = 1 + s.u8() % 120;
    let mut b = HBw { buf: Vec::new(), pos: 0 };
    b.put(1, 17);
    b.put(0, 5);
    b.put(3, 8);
    b.put(1, 3); // size code 1: 16-bit custom width and height
    b.put(w as u32, 16);
    b.put(h as u32, 16);
    b.put(0, 2);
    b.put(0, 1);
    b.put(5, 5);
    b.put(0, 1);
    for _ in 0..nmb {
        b.put(1, 1);
        b.put(0b0011, 4);
        for _ in 0..6 {
            b.put(dc as u32, 8);
        }
    }
    b.align();
    let mut st = H263State::new(DecoderOption::SORENSON_SPARK_BITSTREAM);
    let mut rd = H263Reader::from_source(&b.buf[..]);
    let r = st.decode_next_picture(&mut rd);
    if r.is_ok() {
        let ok = match st.get_last_picture() {
            Some(p) => {
                let (y, cb, cr) = p.as_yuv();
                let cw = (w as usize + 1) / 2;
                let ch = (h as usize + 1) / 2;
                y.len() == w as usize * h as usize && cb.len() == cw * ch && cr.len() == cw * ch && p.chroma_samples_per_row() == cw
            }
            None => false,
        };
        chk!(s, ok, "state.dims.plane_sizes: a stored picture has luma w*h and chroma ceil(w/2)*ceil(h/2) [C13,C01]");
    }
    s.reach();
}

// native witness search for the quantizer update (C11, C02): a Sorenson I picture of two macroblocks that changes the quantizer twice with
// DQUANT (INTRA+Q, INTRA+Q; the second carries one escape-coded coefficient) must decode to the same samples as the picture that carries
// the resulting quantizer clamp(clamp(PQUANT + d0) + d1) in its header and no DQUANT
#[cfg(not(kani))]
fn dq_picture(pq: u32, dq: Option<(u32, u32)>, dc: u8, level: u32) -> Vec<u8> {
    let mut b = HBw { buf: Vec::new(), pos: 0 };
    b.put(1, 17);
    b.put(0, 5);
    b.put(9, 8);
    b.put(0, 3);
    b.put(32, 8);
    b.put(16, 8);
    b.put(0, 2);
    b.put(0, 1);
    b.put(pq, 5);
    b.put(0, 1);
    for k in 0..2 {
        match dq {
            Some(_) => b.put(0b0001, 4), // MCBPC: INTRA+Q, no chroma coefficients
            None => b.put(1, 1),          // MCBPC: INTRA, no chroma coefficients
        }
        if k == 0 {
            b.put(0b0011, 4); // CBPY: no luma coefficients
        } else {
            b.put(0b00010, 5); // CBPY: first luma block coded
        }
        if let Some((d0, d1)) = dq {
            b.put(if k == 0 { d0 } else { d1 }, 2);
        }
        for blk in 0..6 {
            b.put(dc as u32, 8);
            if k == 1 && blk == 0 {
                b.put(0b0000011, 7); // ESCAPE
                b.put(1, 1); // LAST
                b.put(1, 6); // RUN 1
                b.put(level & 0xFF, 8); // LEVEL
            }
        }
    }
    b.align();
    b.buf
}
#[cfg(not(kani))]
fn h_dquant_dyn(s: &mut RSrc) {
    let pq = 1 + (s.u8() % 31) as i32;
    let (c0, c1) = ((s.u8() % 4) as u32, (s.u8() % 4) as u32);
    let dqv = |c: u32| [-1i32, -2, 1, 2][c as usize];
    let q0 = (pq + dqv(c0)).clamp(1, 31);
    let q1 = (q0 + dqv(c1)).clamp(1, 31);
    let dc = 16 + s.u8() % 100;
    let level = 5 + (s.u8() % 20) as u32;
    let with_dq = dq_picture(pq as u32, Some((c0, c1)), dc, level);
    let plain = dq_picture(q1 as u32, None, dc, level);
    let mut a = H263State::new(DecoderOption::SORENSON_SPARK_BITSTREAM);
    let mut b = H263State::new(DecoderOption::SORENSON_SPARK_BITSTREAM);
    let ra = a.decode_next_picture(&mut H263Reader::from_source(&with_dq[..]));
    let rb = b.decode_next_picture(&mut H263Reader::from_source(&plain[..]));
    let same = match (ra, rb, a.get_last_picture(), b.get_last_picture()) {
        (Ok(()), Ok(()), Some(x), Some(y)) => x.as_yuv() == y.as_yuv(),
        _ => false,
    };
    chk!(s, same, "state.dquant.sequence: after two DQUANTs the quantizer in force is clamp(clamp(PQUANT + d0, 1, 31) + d1, 1, 31): the picture equals the one coded with that quantizer [C11,C02]");
    s.reach();
}

#[cfg(kani)]
mod proofs {
    use super::*;
    #[kani::proof]
    fn ceil_div16() {
        h_ceil_div16(&mut KSrc)
    }
    #[kani::proof]
    #[kani::unwind(8)]
    fn option_masks() {
        h_option_masks(&mut KSrc)
    }
    #[kani::proof]
    fn bitflags_model() {
        h_bitflags_model(&mut KSrc)
    }
}

#[cfg(all(test, not(kani)))]
mod replay {
    use super::*;
    fn dispatch(name: &str, r: &mut RSrc) -> bool {
        match name {
            "ceil_div16" => h_ceil_div16(r),
            "option_masks" => h_option_masks(r),
            "bitflags_model" => h_bitflags_model(r),
            "history_dyn" => h_history_dyn(r),
            "dims_dyn" => h_dims_dyn(r),
            "dquant_dyn" => h_dquant_dyn(r),
            _ => return false,
        }
        true
    }
    #[test]
    fn verif_replay() {
        verif_replay_main(dispatch)
    }
}
