// Hook module of h263/src/decoder/cpu/rle.rs.  Properties: C11 (dequantisation), C02 (zig-zag placement, sparsity class).
#![allow(dead_code, unused_imports)]
use super::*;
use crate::types::{IntraDc, TCoefficient};

include!("/verif/hooks/common.rs");
include!("/verif/spec/h263_tables.rs");

// expected dense 8x8 block (row-major [row][col]) from INTRADC + events, per H.263 6.2 and Figure 14
fn expect_block(dc: Option<u8>, ev: &[(u8, i16)], q: u8) -> ([[i32; 8]; 8], bool) {
    let mut m = [[0i32; 8]; 8];
    let mut k = 0usize;
    let mut truncated = false;
    if let Some(code) = dc {
        m[0][0] = h263_spec::intradc_level(code).unwrap_or(0);
        k = 1;
    }
    let mut i = 0;
    while i < ev.len() {
        k += ev[i].0 as usize;
        if k >= 64 {
            truncated = true;
            break;
        }
        let (r, c) = h263_spec::zigzag_pos(k);
        m[r][c] = h263_spec::dequant(q, ev[i].1);
        k += 1;
        i += 1;
    }
    (m, truncated)
}

// compare a DecodedDctBlock with the expected dense block: values and sparsity class
//   Zero  <=> all coefficients zero;  Dc <=> only (0,0) non-zero;  Horiz <=> support within row 0 (and beyond (0,0));
//   Vert  <=> support within column 0 (and beyond (0,0));  Full otherwise.
fn same_block(got: &DecodedDctBlock, m: &[[i32; 8]; 8]) -> (bool, bool) {
    let mut nz_row0 = false; // non-zero in row 0, col > 0
    let mut nz_col0 = false; // non-zero in col 0, row > 0
    let mut nz_else = false;
    let mut r = 0;
    while r < 8 {
        let mut c = 0;
        while c < 8 {
            if m[r][c] != 0 {
                if r == 0 && c > 0 {
                    nz_row0 = true;
                } else if c == 0 && r > 0 {
                    nz_col0 = true;
                } else if r > 0 && c > 0 {
                    nz_else = true;
                }
            }
            c += 1;
        }
        r += 1;
    }
    let dense = nz_else || (nz_row0 && nz_col0);
    let mut vals = true;
    let class;
    match got {
        DecodedDctBlock::Zero => {
            class = !dense && !nz_row0 && !nz_col0 && m[0][0] == 0;
        }
        DecodedDctBlock::Dc(v) => {
            class = !dense && !nz_row0 && !nz_col0 && m[0][0] != 0;
            vals = *v == m[0][0] as f32;
        }
        DecodedDctBlock::Horiz(row) => {
            class = !dense && nz_row0;
            let mut c = 0;
            while c < 8 {
                if row[c] != m[0][c] as f32 {
                    vals = false;
                }
                c += 1;
            }
        }
        DecodedDctBlock::Vert(col) => {
            class = !dense && nz_col0;
            let mut r = 0;
            while r < 8 {
                if col[r] != m[r][0] as f32 {
                    vals = false;
                }
                r += 1;
            }
        }
        DecodedDctBlock::Full(b) => {
            class = dense;
            let mut r = 0;
            while r < 8 {
                let mut c = 0;
                while c < 8 {
                    if b[r][c] != m[r][c] as f32 {
                        vals = false;
                    }
                    c += 1;
                }
                r += 1;
            }
        }
    }
    (vals, class)
}

// C11: one event, every quantizer 1..=31, every level -1023..=1023 except 0, every run 0..=63, with and without INTRADC
fn h_single<S: Src, const INTRA: bool>(s: &mut S) {
    let q = s.u8();
    s.assume(q >= 1 && q <= 31);
    let level = s.i16();
    s.assume(level >= -1023 && level <= 1023 && level != 0);
    let run = s.u8();
    s.assume(run < 64);
    let dc = if INTRA {
        let c = s.u8();
        s.assume(c != 0 && c != 128);
        Some(c)
    } else {
        None
    };
    let blk = Block { intradc: dc.and_then(IntraDc::from_u8), tcoef: vec![TCoefficient { is_short: false, run, level }] };
    let mut levels = [DecodedDctBlock::Zero; 1];
    inverse_rle(&blk, &mut levels, (0, 0), 1, q);
    let (m, truncated) = expect_block(dc, &[(run, level)], q);
    if !truncated {
        let (vals, class) = same_block(&levels[0], &m);
        chk!(s, vals, "rle.inverse_rle.post_coeff: coefficient at its zig-zag position == sat(sign(L)*(Q*(2|L|+1) - [Q even])), every other coefficient 0");
        chk!(s, class, "rle.inverse_rle.post_class: Zero/Dc/Horiz/Vert/Full matches the support of the block");
    }
    s.reach();
}

// C02: up to N events (runs and levels symbolic), INTRADC optional, block position and stride concrete
fn h_multi<S: Src, const N: usize>(s: &mut S) {
    let q = s.u8();
    s.assume(q >= 1 && q <= 31);
    let has_dc = s.bool();
    let dc = if has_dc {
        let c = s.u8();
        s.assume(c != 0 && c != 128);
        Some(c)
    } else {
        None
    };
    let mut ev = [(0u8, 0i16); N];
    let mut tc = Vec::with_capacity(N);
    let mut i = 0;
    while i < N {
        let run = s.u8();
        let level = s.i16();
        s.assume(run < 64 && level >= -127 && level <= 127 && level != 0);
        ev[i] = (run, level);
        tc.push(TCoefficient { is_short: true, run, level });
        i += 1;
    }
    let blk = Block { intradc: dc.and_then(IntraDc::from_u8), tcoef: tc };
    // block (1,1) of a 2-blocks-per-line array: index 3; the other entries must stay untouched
    let mut levels = [DecodedDctBlock::Zero; 4];
    inverse_rle(&blk, &mut levels, (8, 8), 2, q);
    let (m, truncated) = expect_block(dc, &ev, q);
    if !truncated {
        let (vals, class) = same_block(&levels[3], &m);
        chk!(s, vals, "rle.inverse_rle.post_coeff: every coefficient == dequantised level at its zig-zag position, others 0");
        chk!(s, class, "rle.inverse_rle.post_class: Zero/Dc/Horiz/Vert/Full matches the support of the block");
    }
    chk!(s, matches!(levels[0], DecodedDctBlock::Zero) && matches!(levels[1], DecodedDctBlock::Zero) && matches!(levels[2], DecodedDctBlock::Zero),
         "rle.inverse_rle.frame: only the addressed block of the level array is written");
    s.reach();
}

// the zig-zag table itself == Figure 14 (all 64 positions)
fn h_zigzag<S: Src>(s: &mut S) {
    let mut k = 0;
    let mut ok = true;
    while k < 64 {
        let (r, c) = h263_spec::zigzag_pos(k);
        let (x, y) = DEZIGZAG_MAPPING[k];
        if x as usize != c || y as usize != r {
            ok = false;
        }
        k += 1;
    }
    chk!(s, ok, "rle.DEZIGZAG_MAPPING.figure14: entry k == (column, row) of the k-th coefficient of Figure 14/H.263");
    s.reach();
}

// A-F32-CONV (Verus unit rle): the conversions and comparisons the unit abstracts by f32_of / f32_nz, on the real operations, every i16
fn h_f32_conv<S: Src>(s: &mut S) {
    let v = s.i16();
    let x: f32 = v.into();
    let y: f32 = v.into();
    chk!(s, x.to_bits() == y.to_bits(), "rle.f32_conv.function: i16 -> f32 is a function of its argument");
    chk!(s, (x != 0.0) == (v != 0), "rle.f32_conv.nonzero: the converted value is non-zero exactly for non-zero arguments");
    chk!(s, (x == 0.0) == !(x != 0.0), "rle.f32_conv.eq_ne: `== 0.0` is the negation of `!= 0.0` on converted values (never NaN)");
    let z: f32 = 0i16.into();
    chk!(s, z.to_bits() == 0.0f32.to_bits(), "rle.f32_conv.zero: the literal 0.0f32 is the conversion of 0");
    s.reach();
}

#[cfg(kani)]
mod proofs {
    use super::*;
    #[kani::proof]
    fn f32_conv() {
        h_f32_conv(&mut KSrc)
    }
    #[kani::proof]
    #[kani::unwind(10)]
    fn single_inter() {
        h_single::<KSrc, false>(&mut KSrc)
    }
    #[kani::proof]
    #[kani::unwind(10)]
    fn single_intra() {
        h_single::<KSrc, true>(&mut KSrc)
    }
    #[kani::proof]
    #[kani::unwind(10)]
    fn multi2() {
        h_multi::<KSrc, 2>(&mut KSrc)
    }
    #[kani::proof]
    #[kani::unwind(10)]
    fn multi3() {
        h_multi::<KSrc, 3>(&mut KSrc)
    }
    #[kani::proof]
    #[kani::unwind(10)]
    fn multi4() {
        h_multi::<KSrc, 4>(&mut KSrc)
    }
    #[kani::proof]
    #[kani::unwind(66)]
    fn zigzag() {
        h_zigzag(&mut KSrc)
    }
}

#[cfg(all(test, not(kani)))]
mod replay {
    use super::*;
    fn dispatch(name: &str, r: &mut RSrc) -> bool {
        match name {
            "single_inter" => h_single::<RSrc, false>(r),
            "single_intra" => h_single::<RSrc, true>(r),
            "multi2" => h_multi::<RSrc, 2>(r),
            "multi3" => h_multi::<RSrc, 3>(r),
            "multi4" => h_multi::<RSrc, 4>(r),
            "zigzag" => h_zigzag(r),
            "f32_conv" => h_f32_conv(r),
            _ => return false,
        }
        true
    }
    #[test]
    fn verif_replay() {
        verif_replay_main(dispatch)
    }
}
