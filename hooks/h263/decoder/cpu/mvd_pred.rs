// Hook module of h263/src/decoder/cpu/mvd_pred.rs.  Properties: C12 (vector reconstruction, candidate selection), C03, C01.
#![allow(dead_code, unused_imports)]
use super::*;
use crate::types::{CustomPictureFormat, Picture, PictureTypeCode, PixelAspectRatio, SourceFormat};

include!("/verif/hooks/common.rs");
include!("/verif/spec/h263_tables.rs");

fn header(has_plusptype: bool, mvr: Option<MotionVectorRange>) -> Picture {
    Picture {
        version: None,
        temporal_reference: 0,
        format: None,
        options: PictureOption::empty(),
        has_plusptype,
        has_opptype: false,
        picture_type: PictureTypeCode::PFrame,
        motion_vector_range: mvr,
        slice_submode: None,
        scalability_layer: None,
        reference_picture_selection_mode: None,
        prediction_reference: None,
        backchannel_message: None,
        reference_picture_resampling: None,
        quantizer: 1,
        multiplex_bitstream: None,
        pb_reference: None,
        pb_quantizer: None,
        extra: Vec::new(),
    }
}
fn picture(has_plusptype: bool, mvr: Option<MotionVectorRange>) -> DecodedPicture {
    let fmt = SourceFormat::Extended(CustomPictureFormat { pixel_aspect_ratio: PixelAspectRatio::Square, picture_width_indication: 4, picture_height_indication: 4 });
    DecodedPicture::new(header(has_plusptype, mvr), fmt).unwrap()
}

// Baseline mode (no UNRESTRICTED_MOTION_VECTORS in force): for every predictor and differential in [-32, 31] half-sample
// units, result == (predictor + differential) reduced modulo 64 into [-32, 31]; for either component, any other option
// bits, with or without PLUSPTYPE, any UUI.
fn h_halfpel_base<S: Src>(s: &mut S) {
    let (p, m) = (s.i16(), s.i16());
    s.assume(p >= -32 && p <= 31 && m >= -32 && m <= 31);
    let bits = s.u32();
    let opts = PictureOption::from_bits_truncate(bits) & !PictureOption::UNRESTRICTED_MOTION_VECTORS;
    let is_x = s.bool();
    let plus = s.bool();
    let mvr = match s.u8() % 3 {
        0 => None,
        1 => Some(MotionVectorRange::Extended),
        _ => Some(MotionVectorRange::Unlimited),
    };
    let pic = picture(plus, mvr);
    let out = halfpel_decode(&pic, opts, HalfPel::from_unit(p), HalfPel::from_unit(m), is_x);
    chk!(s, out == HalfPel::from_unit(h263_spec::wrap32(p as i32 + m as i32) as i16), "mvd_pred.halfpel_decode.post_wrap: == (predictor + differential) mod 64 in [-32, 31]");
    s.reach();
}

// Annex D.1 mode (UMV in force, no PLUSPTYPE): predictors and results stay within [-64, 63] for table differentials
fn h_halfpel_umv_bound<S: Src>(s: &mut S) {
    let (p, m) = (s.i16(), s.i16());
    s.assume(p >= -64 && p <= 63 && m >= -32 && m <= 31);
    let bits = s.u32();
    let opts = PictureOption::from_bits_truncate(bits) | PictureOption::UNRESTRICTED_MOTION_VECTORS;
    let is_x = s.bool();
    let pic = picture(false, None);
    let out = halfpel_decode(&pic, opts, HalfPel::from_unit(p), HalfPel::from_unit(m), is_x);
    chk!(s, out >= HalfPel::from_unit(-64) && out <= HalfPel::from_unit(63), "mvd_pred.halfpel_decode.post_umv_bound: result in [-64, 63] in Annex D.1 mode");
    s.reach();
}

// mv_decode is halfpel_decode on each component
fn h_mv_decode<S: Src>(s: &mut S) {
    let (px, py, mx, my) = (s.i16(), s.i16(), s.i16(), s.i16());
    s.assume(px >= -32 && px <= 31 && mx >= -32 && mx <= 31 && py >= -32 && py <= 31 && my >= -32 && my <= 31);
    let pic = picture(false, None);
    let out = mv_decode(&pic, PictureOption::empty(), (HalfPel::from_unit(px), HalfPel::from_unit(py)).into(), (HalfPel::from_unit(mx), HalfPel::from_unit(my)).into());
    let (ox, oy): (HalfPel, HalfPel) = out.into();
    chk!(s, ox == HalfPel::from_unit(h263_spec::wrap32(px as i32 + mx as i32) as i16) && oy == HalfPel::from_unit(h263_spec::wrap32(py as i32 + my as i32) as i16),
         "mvd_pred.mv_decode.post: component-wise wrap of predictor + differential");
    s.reach();
}

// Candidate selection of H.263 6.1.1 / Annex F on a concrete grid: `cols` macroblocks per line, `cur` macroblocks already
// decoded (their 4 vectors each symbolic), block `index` of the current macroblock, blocks < index of the current one
// symbolic. Spec written from Figure 10 / Figure F.2:
//   block 0: MV1 = left MB block 1     MV2 = above MB block 2    MV3 = above-right MB block 2
//   block 1: MV1 = current block 0     MV2 = above MB block 3    MV3 = above-right MB block 2
//   block 2: MV1 = left MB block 3     MV2 = current block 0     MV3 = current block 1
//   block 3: MV1 = current block 2     MV2 = current block 0     MV3 = current block 1
//   rule 1: MV1 := 0 if the left MB is outside the picture; rule 2: then MV2, MV3 := MV1 if the MB above is outside
//   (first row); rule 3: then MV3 := 0 if the above-right MB is outside (last column).   predictor = median per component.
fn anymv<S: Src>(s: &mut S) -> (i16, i16) {
    let (x, y) = (s.i16(), s.i16());
    s.assume(x >= -64 && x <= 63 && y >= -64 && y <= 63);
    (x, y)
}
fn predict_instance<S: Src, const CUR: usize>(s: &mut S, cols: usize, index: usize) {
    let mut raw = [[(0i16, 0i16); 4]; CUR];
    let mut pv = [[MotionVector::zero(); 4]; CUR];
    let mut i = 0;
    while i < CUR {
        let mut b = 0;
        while b < 4 {
            raw[i][b] = anymv(s);
            pv[i][b] = (HalfPel::from_unit(raw[i][b].0), HalfPel::from_unit(raw[i][b].1)).into();
            b += 1;
        }
        i += 1;
    }
    let mut craw = [(0i16, 0i16); 4];
    let mut cur = [MotionVector::zero(); 4];
    let mut b = 0;
    while b < index {
        craw[b] = anymv(s);
        cur[b] = (HalfPel::from_unit(craw[b].0), HalfPel::from_unit(craw[b].1)).into();
        b += 1;
    }
    let got = predict_candidate(&pv, &cur, cols, index);
    // spec
    let col = CUR % cols;
    let row = CUR / cols;
    let zero = (0i16, 0i16);
    let mut mv1 = match index {
        0 => if col == 0 { zero } else { raw[CUR - 1][1] },
        2 => if col == 0 { zero } else { raw[CUR - 1][3] },
        1 => craw[0],
        _ => craw[2],
    };
    let _ = &mut mv1;
    let (mv2, mv3) = if index >= 2 {
        (craw[0], craw[1])
    } else {
        let above_blk = if index == 0 { 2 } else { 3 };
        let mut m2 = if row == 0 { mv1 } else { raw[CUR - cols][above_blk] };
        let mut m3 = if row == 0 { mv1 } else if col + 1 < cols { raw[CUR - cols + 1][2] } else { zero };
        if col + 1 >= cols {
            m3 = zero; // rule 3 applies after rule 2
        }
        let _ = &mut m2;
        (m2, m3)
    };
    let want = (h263_spec::median3(mv1.0 as i32, mv2.0 as i32, mv3.0 as i32), h263_spec::median3(mv1.1 as i32, mv2.1 as i32, mv3.1 as i32));
    let (gx, gy): (HalfPel, HalfPel) = got.into();
    chk!(s, gx == HalfPel::from_unit(want.0 as i16) && gy == HalfPel::from_unit(want.1 as i16),
         "mvd_pred.predict_candidate.post: median of the three candidates of H.263 6.1.1 / Figure F.2 with the picture-edge rules");
}
// one harness per (COLS, CUR): the four block indices of macroblock number CUR in a picture COLS macroblocks wide
fn h_predict<S: Src, const COLS: usize, const CUR: usize>(s: &mut S) {
    let mut idx = 0;
    while idx < 4 {
        predict_instance::<S, CUR>(s, COLS, idx);
        idx += 1;
    }
    s.reach();
}

#[cfg(kani)]
mod proofs {
    use super::*;
    #[kani::proof]
    #[kani::unwind(20)]
    fn halfpel_base() {
        h_halfpel_base(&mut KSrc)
    }
    #[kani::proof]
    #[kani::unwind(20)]
    fn halfpel_umv_bound() {
        h_halfpel_umv_bound(&mut KSrc)
    }
    #[kani::proof]
    #[kani::unwind(20)]
    fn mv_decode_base() {
        h_mv_decode(&mut KSrc)
    }
    macro_rules! predict {
        ($name:ident, $cols:expr, $cur:expr) => {
            #[kani::proof]
            #[kani::unwind(12)]
            fn $name() {
                h_predict::<KSrc, $cols, $cur>(&mut KSrc)
            }
        };
    }
    include!("/verif/hooks/h263/decoder/cpu/mvd_pred_shapes.rs");
}

#[cfg(all(test, not(kani)))]
mod replay {
    use super::*;
    fn dispatch(name: &str, r: &mut RSrc) -> bool {
        match name {
            "halfpel_base" => h_halfpel_base(r),
            "halfpel_umv_bound" => h_halfpel_umv_bound(r),
            "mv_decode_base" => h_mv_decode(r),
            n if n.starts_with("predict_c") => {
                let n = n.to_string();
                include!("/verif/hooks/h263/decoder/cpu/mvd_pred_replay_arms.rs")
            }
            _ => return false,
        }
        true
    }
    #[test]
    fn verif_replay() {
        verif_replay_main(dispatch)
    }
}
