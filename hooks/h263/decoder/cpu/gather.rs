// Hook module of h263/src/decoder/cpu/gather.rs: sibling harnesses of the Verus contracts of read_sample / lerp / gather_block
// (same postconditions, written against an executable form of the H.263 6.1.2 spec). Natively they are the witness search for a
// failed Verus obligation (all shape parameters come from the witness bytes); under Kani they are bounded cross-checks on
// concrete shapes with symbolic plane contents.  Property: C03.
#![allow(dead_code, unused_imports)]
use super::*;
use crate::types::HalfPel;

include!("/verif/hooks/common.rs");

fn clampi(x: i64, lo: i64, hi: i64) -> i64 {
    if x < lo { lo } else if x > hi { hi } else { x }
}
fn samp(a: &[u8], w: i64, h: i64, x: i64, y: i64) -> i64 {
    a[(clampi(x, 0, w - 1) + clampi(y, 0, h - 1) * w) as usize] as i64
}
// H.263 6.1.2: A at the integer position, B right, C below, D diagonal; (A+B+1)/2, (A+C+1)/2, (A+B+C+D+2)/4
fn bilin(a: &[u8], w: i64, h: i64, x: i64, y: i64, mx: i64, my: i64) -> i64 {
    let x0 = x + mx.div_euclid(2);
    let y0 = y + my.div_euclid(2);
    let hx = mx.rem_euclid(2) == 1;
    let hy = my.rem_euclid(2) == 1;
    let (aa, bb, cc, dd) = (samp(a, w, h, x0, y0), samp(a, w, h, x0 + 1, y0), samp(a, w, h, x0, y0 + 1), samp(a, w, h, x0 + 1, y0 + 1));
    if !hx && !hy { aa } else if hx && !hy { (aa + bb + 1) / 2 } else if !hx && hy { (aa + cc + 1) / 2 } else { (aa + bb + cc + dd + 2) / 4 }
}

fn gb_core<S: Src>(s: &mut S, reference: &[u8], target: &mut [u8], w: usize, h: usize, px: usize, py: usize, mx: i16, my: i16) {
    let before: Vec<u8> = target.to_vec();
    let mv: MotionVector = (HalfPel::from_unit(mx), HalfPel::from_unit(my)).into();
    gather_block(reference, w, (px, py), mv, target);
    let mut ok_pix = true;
    let mut ok_frame = true;
    let mut y = 0;
    while y < h {
        let mut x = 0;
        while x < w {
            let inside = x >= px && x < px + 8 && y >= py && y < py + 8;
            let got = target[x + y * w] as i64;
            if inside {
                if got != bilin(reference, w as i64, h as i64, x as i64, y as i64, mx as i64, my as i64) {
                    ok_pix = false;
                }
            } else if got != before[x + y * w] as i64 {
                ok_frame = false;
            }
            x += 1;
        }
        y += 1;
    }
    chk!(s, ok_pix, "gather.gather_block.post_pixel: every sample of the block inside the picture == bilinear half-sample prediction with edge clamping");
    chk!(s, ok_frame, "gather.gather_block.frame: no sample outside the 8x8 block is written");
    s.reach();
}

// Kani: concrete shape, symbolic contents
fn h_gb<S: Src, const W: usize, const H: usize, const N: usize>(s: &mut S, px: usize, py: usize, mx: i16, my: i16) {
    let reference: [u8; N] = s.arr();
    let mut target: [u8; N] = s.arr();
    gb_core(s, &reference, &mut target, W, H, px, py, mx, my);
}
// native: shape from the witness
#[cfg(not(kani))]
fn h_gb_dyn(s: &mut RSrc) {
    let w = 1 + (s.u8() % 40) as usize;
    let h = 1 + (s.u8() % 40) as usize;
    let px = ((s.u8() % 6) as usize) * 8;
    let py = ((s.u8() % 6) as usize) * 8;
    let mx = (s.u8() as i16) - 128;
    let my = (s.u8() as i16) - 128;
    let mx = if s.u8() % 4 == 0 { mx } else { mx / 4 };
    let my = if s.u8() % 4 == 0 { my } else { my / 4 };
    // mostly blocks that start inside the picture; edge-aligned sources are the interesting ones
    let reference: Vec<u8> = (0..w * h).map(|_| s.u8()).collect();
    let mut target: Vec<u8> = (0..w * h).map(|_| s.u8()).collect();
    gb_core(s, &reference, &mut target, w, h, px, py, mx, my);
}
#[cfg(not(kani))]
fn h_lerp_dyn(s: &mut RSrc) {
    let (a, b, m) = (s.u8(), s.u8(), s.bool());
    let r = lerp(a, b, m) as u16;
    chk!(s, r == if m { (a as u16 + b as u16 + 1) / 2 } else { a as u16 }, "gather.lerp.post: the half-sample average rounds upward");
    s.reach();
}
#[cfg(not(kani))]
fn h_read_sample_dyn(s: &mut RSrc) {
    let w = 1 + (s.u8() % 20) as usize;
    let h = 1 + (s.u8() % 20) as usize;
    let x = (s.u8() as isize) - 100;
    let y = (s.u8() as isize) - 100;
    let a: Vec<u8> = (0..w * h).map(|_| s.u8()).collect();
    let r = read_sample(&a, w, h, (x, y)) as i64;
    chk!(s, r == samp(&a, w as i64, h as i64, x as i64, y as i64), "gather.read_sample.post: the sample at the position clamped to the picture edge");
    s.reach();
}

#[cfg(kani)]
mod proofs {
    use super::*;
    macro_rules! gb {
        ($name:ident, $w:expr, $h:expr, $px:expr, $py:expr, $mx:expr, $my:expr) => {
            #[kani::proof]
            #[kani::unwind(300)]
            fn $name() {
                h_gb::<KSrc, $w, $h, { $w * $h }>(&mut KSrc, $px, $py, $mx, $my)
            }
        };
    }
    // fast path, clamped copy at each edge, each interpolation phase, block cut by the right / bottom edge, block outside
    gb!(gb_16x16_fast, 16, 16, 8, 8, -4, 2);
    gb!(gb_16x16_clamp_left, 16, 16, 0, 0, -6, -2);
    gb!(gb_16x16_clamp_right, 16, 16, 8, 8, 6, 4);
    gb!(gb_16x16_hx, 16, 16, 0, 8, 3, 0);
    gb!(gb_16x16_hy, 16, 16, 8, 0, 0, -5);
    gb!(gb_16x16_hxy, 16, 16, 8, 8, 31, -31);
    gb!(gb_11x9_cut, 11, 9, 8, 8, 1, 1);
    gb!(gb_9x9_outside, 9, 9, 16, 0, 2, 2);
}

#[cfg(all(test, not(kani)))]
mod replay {
    use super::*;
    fn dispatch(name: &str, r: &mut RSrc) -> bool {
        match name {
            "gb_dyn" => h_gb_dyn(r),
            "lerp_dyn" => h_lerp_dyn(r),
            "read_sample_dyn" => h_read_sample_dyn(r),
            "gb_16x16_fast" => h_gb::<RSrc, 16, 16, 256>(r, 8, 8, -4, 2),
            "gb_16x16_clamp_left" => h_gb::<RSrc, 16, 16, 256>(r, 0, 0, -6, -2),
            "gb_16x16_clamp_right" => h_gb::<RSrc, 16, 16, 256>(r, 8, 8, 6, 4),
            "gb_16x16_hx" => h_gb::<RSrc, 16, 16, 256>(r, 0, 8, 3, 0),
            "gb_16x16_hy" => h_gb::<RSrc, 16, 16, 256>(r, 8, 0, 0, -5),
            "gb_16x16_hxy" => h_gb::<RSrc, 16, 16, 256>(r, 8, 8, 31, -31),
            "gb_11x9_cut" => h_gb::<RSrc, 11, 9, 99>(r, 8, 8, 1, 1),
            "gb_9x9_outside" => h_gb::<RSrc, 9, 9, 81>(r, 16, 0, 2, 2),
            _ => return false,
        }
        true
    }
    #[test]
    fn verif_replay() {
        verif_replay_main(dispatch)
    }
}
