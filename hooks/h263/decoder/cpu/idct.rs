// verification hook for h263/src/decoder/cpu/idct.rs (compiled only under cfg(kani) or cfg(ruffle_rs_h263_rs_verif))
