// Hook module of h263/src/decoder/cpu/idct.rs.  Properties C02 (structure of the separable IDCT, rounding, clipping, cropping), C01 (no panic for
// blocks outside the frame), C10-deterministic clauses (zero block, DC shortcut).
//
// idct_channel only CALLS the 1-D kernel idct_1d, so its plumbing (row pass, transposition, column pass, un-transposition, the four sparse-block
// shortcuts, rounding, residual addition, clipping, cropping to the plane) is verified against idct_1d's CONTRACT with the kernel left abstract:
// the stub K is non-idempotent and position-sensitive, K(v)[i] = v[(i+1) % 8] + 1.0 (exact in f32 for the integer-valued inputs used), so that any
// mix-up of rows/columns/indices is visible (assumption A-PARAM).  The numeric accuracy of the real kernel is assumption A-F32-DOT.
#![allow(dead_code, unused_imports)]
use super::*;

include!("/verif/hooks/common.rs");

fn k_stub(input: &[f32; 8], output: &mut [f32; 8]) {
    let mut i = 0;
    while i < 8 {
        output[i] = input[(i + 1) % 8] + 1.0;
        i += 1;
    }
}
fn kk(v: &[f32; 8]) -> [f32; 8] {
    let mut o = [0.0f32; 8];
    k_stub(v, &mut o);
    o
}
// the rounding of the code, as a specification: v/4 rounded half away from zero, clipped to -256..255
fn rnd(v: f32) -> i16 {
    let q = (v / 4.0 + v.signum() * 0.5) as i16;
    if q < -256 { -256 } else if q > 255 { 255 } else { q }
}
fn clip255(v: i16) -> u8 {
    if v < 0 { 0 } else if v > 255 { 255 } else { v as u8 }
}
fn coef<S: Src>(s: &mut S) -> f32 {
    let c = s.i16();
    s.assume(c >= -2048 && c <= 2047);
    c as f32
}

// one block of variant V (0 Zero, 1 Dc, 2 Horiz, 3 Vert, 4 Full) at block position (BX, BY) of a plane W x H with BPL blocks per line and NB blocks;
// every other block Zero; the plane pre-filled with arbitrary prediction samples.
fn h_struct<S: Src, const W: usize, const H: usize, const N: usize, const BPL: usize, const NB: usize, const BX: usize, const BY: usize, const V: usize>(s: &mut S) {
    let mut levels = [DecodedDctBlock::Zero; NB];
    let mut full = [[0.0f32; 8]; 8];
    let mut line = [0.0f32; 8];
    let mut dc = 0.0f32;
    if V == 1 {
        dc = coef(s);
        levels[BX + BY * BPL] = DecodedDctBlock::Dc(dc);
    } else if V == 2 || V == 3 {
        let mut i = 0;
        while i < 8 {
            line[i] = coef(s);
            i += 1;
        }
        levels[BX + BY * BPL] = if V == 2 { DecodedDctBlock::Horiz(line) } else { DecodedDctBlock::Vert(line) };
    } else if V == 4 {
        let mut r = 0;
        while r < 8 {
            let mut c = 0;
            while c < 8 {
                full[r][c] = coef(s);
                c += 1;
            }
            r += 1;
        }
        levels[BX + BY * BPL] = DecodedDctBlock::Full(full);
    }
    let pred: [u8; N] = s.arr();
    let mut out = pred;
    idct_channel(&levels, &mut out, BPL, W);
    // expected residual of the block per sample offset (xo, yo)
    let b00 = BASIS_TABLE[0][0];
    let hk = kk(&line);
    let mut t = [[0.0f32; 8]; 8]; // row pass
    let mut r = 0;
    while r < 8 {
        t[r] = kk(&full[r]);
        r += 1;
    }
    let mut ok = true;
    let mut frame = true;
    let mut y = 0;
    while y < H {
        let mut x = 0;
        while x < W {
            let inside = x >= BX * 8 && x < BX * 8 + 8 && y >= BY * 8 && y < BY * 8 + 8;
            let got = out[x + y * W];
            if !inside || V == 0 {
                if got != pred[x + y * W] {
                    frame = false;
                }
            } else {
                let (xo, yo) = (x - BX * 8, y - BY * 8);
                let res: i16 = if V == 1 {
                    rnd(dc * 0.5)
                } else if V == 2 {
                    rnd(hk[xo] * b00)
                } else if V == 3 {
                    rnd(hk[yo] * b00)
                } else {
                    // column xo of the row-pass result, transformed again, sample yo
                    let mut col = [0.0f32; 8];
                    let mut r2 = 0;
                    while r2 < 8 {
                        col[r2] = t[r2][xo];
                        r2 += 1;
                    }
                    rnd(kk(&col)[yo])
                };
                if got != clip255(res + pred[x + y * W] as i16) {
                    ok = false;
                }
            }
            x += 1;
        }
        y += 1;
    }
    chk!(s, ok, "idct.idct_channel.post_struct: sample = clip(prediction + round(K(columns of K(rows)) / 4)) at the block's position (shortcuts: Dc d/8, Horiz K(row)[x]*c0, Vert K(col)[y]*c0), cropped to the plane");
    chk!(s, frame, "idct.idct_channel.frame: samples outside the block's 8x8 area (and Zero blocks) keep the prediction");
    s.reach();
}

// exact f32 lemmas on the real expressions -------------------------------------------------------------------------------------------------------------
// (a) the Dc shortcut: (d*0.5/4 + signum(d)*0.5) as i16 is d/8 rounded half away from zero, for every integer d in -2048..=2047
fn h_dc_round<S: Src>(s: &mut S) {
    let d = s.i16();
    s.assume(d >= -2048 && d <= 2047);
    let dc = d as f32;
    let got = (dc * 0.5 / 4.0 + dc.signum() * 0.5) as i16;
    let a = if d < 0 { -(d as i32) } else { d as i32 };
    let q = (a + 4) / 8; // |d|/8 rounded half up
    let want = if d < 0 { -q } else { q };
    chk!(s, got as i32 == want, "idct.dc_shortcut.round: the DC-only reconstruction is d/8 rounded half away from zero (the ideal IDCT of a DC block is d/8)");
    chk!(s, d != 0 || got == 0, "idct.dc_shortcut.zero: a zero coefficient gives a zero residual");
    s.reach();
}
// (b) rnd(v) for integer-valued v (what the abstract kernel yields): v/4 rounded half away from zero
fn h_rnd_int<S: Src>(s: &mut S) {
    let v = s.i16();
    s.assume(v >= -8192 && v <= 8192);
    let f = v as f32;
    let got = (f / 4.0 + f.signum() * 0.5) as i16;
    let a = if v < 0 { -(v as i32) } else { v as i32 };
    let q = (a + 2) / 4;
    let want = if v < 0 { -q } else { q };
    chk!(s, got as i32 == want, "idct.rnd.integer: (v/4 + signum(v)*0.5) as i16 is v/4 rounded half away from zero for integer v");
    s.reach();
}
// (c) the first basis row is constant (why the Horiz / Vert shortcuts may multiply by BASIS_TABLE[0][0])
fn h_basis_row0<S: Src>(s: &mut S) {
    let mut i = 0;
    let mut ok = true;
    while i < 8 {
        if BASIS_TABLE[0][i] != BASIS_TABLE[0][0] {
            ok = false;
        }
        i += 1;
    }
    chk!(s, ok && BASIS_TABLE[0][0] > 0.70710 && BASIS_TABLE[0][0] < 0.70711, "idct.BASIS_TABLE.row0: c(0)*cos(0) = 1/sqrt(2) at every position");
    s.reach();
}
// (d) BASIS_TABLE[f][i] within 2e-6 of c(f) * cos((2i+1) f pi / 16); reference values tabulated to 9 digits (computed from the formula, not copied)
const COS_REF: [[f64; 8]; 8] = [
    [0.707106781, 0.707106781, 0.707106781, 0.707106781, 0.707106781, 0.707106781, 0.707106781, 0.707106781],
    [0.980785280, 0.831469612, 0.555570233, 0.195090322, -0.195090322, -0.555570233, -0.831469612, -0.980785280],
    [0.923879533, 0.382683432, -0.382683432, -0.923879533, -0.923879533, -0.382683432, 0.382683432, 0.923879533],
    [0.831469612, -0.195090322, -0.980785280, -0.555570233, 0.555570233, 0.980785280, 0.195090322, -0.831469612],
    [0.707106781, -0.707106781, -0.707106781, 0.707106781, 0.707106781, -0.707106781, -0.707106781, 0.707106781],
    [0.555570233, -0.980785280, 0.195090322, 0.831469612, -0.831469612, -0.195090322, 0.980785280, -0.555570233],
    [0.382683432, -0.923879533, 0.923879533, -0.382683432, -0.382683432, 0.923879533, -0.923879533, 0.382683432],
    [0.195090322, -0.555570233, 0.831469612, -0.980785280, 0.980785280, -0.831469612, 0.555570233, -0.195090322],
];
fn h_basis_cos<S: Src>(s: &mut S) {
    let mut f = 0;
    let mut ok = true;
    while f < 8 {
        let mut i = 0;
        while i < 8 {
            let d = BASIS_TABLE[f][i] as f64 - COS_REF[f][i];
            if d > 2e-6 || d < -2e-6 {
                ok = false;
            }
            i += 1;
        }
        f += 1;
    }
    chk!(s, ok, "idct.BASIS_TABLE.cosines: every entry within 2e-6 of c(f) cos((2i+1) f pi / 16)");
    s.reach();
}
// (e) the real 1-D kernel maps the zero vector to zero (C10: an all-zero block gives all zeros) and is the dot product with the table for unit inputs
fn h_idct1d_units<S: Src>(s: &mut S) {
    let mut o = [9.0f32; 8];
    idct_1d(&[0.0; 8], &mut o);
    let mut z = true;
    let mut i = 0;
    while i < 8 {
        if o[i] != 0.0 {
            z = false;
        }
        i += 1;
    }
    chk!(s, z, "idct.idct_1d.zero: the zero vector transforms to the zero vector");
    let f = (s.u8() % 8) as usize;
    let mut e = [0.0f32; 8];
    e[f] = 1.0;
    idct_1d(&e, &mut o);
    let mut ok = true;
    let mut i = 0;
    while i < 8 {
        if o[i] != BASIS_TABLE[f][i] {
            ok = false;
        }
        i += 1;
    }
    chk!(s, ok, "idct.idct_1d.unit: the f-th unit vector transforms to row f of the basis table");
    s.reach();
}

#[cfg(kani)]
mod proofs {
    use super::*;
    macro_rules! st {
        ($name:ident, $w:expr, $h:expr, $bpl:expr, $nb:expr, $bx:expr, $by:expr, $v:expr) => {
            #[kani::proof]
            #[kani::unwind(200)]
            #[kani::stub(super::super::idct_1d, k_stub)]
            fn $name() {
                h_struct::<KSrc, $w, $h, { $w * $h }, $bpl, $nb, $bx, $by, $v>(&mut KSrc)
            }
        };
    }
    include!("/verif/hooks/h263/decoder/cpu/idct_shapes.rs");
    #[kani::proof]
    fn dc_round() {
        h_dc_round(&mut KSrc)
    }
    #[kani::proof]
    fn rnd_int() {
        h_rnd_int(&mut KSrc)
    }
    #[kani::proof]
    #[kani::unwind(10)]
    fn basis_row0() {
        h_basis_row0(&mut KSrc)
    }
    #[kani::proof]
    #[kani::unwind(10)]
    fn basis_cos() {
        h_basis_cos(&mut KSrc)
    }
    #[kani::proof]
    #[kani::unwind(10)]
    fn idct1d_units() {
        h_idct1d_units(&mut KSrc)
    }
}

#[cfg(all(test, not(kani)))]
mod replay {
    use super::*;
    // natively the real idct_1d runs: the structural postcondition with the abstract kernel does not apply; the native witness for a structural
    // failure is the decode-level reference harness (hooks/.../state.rs `intra_dyn`)
    fn dispatch(name: &str, r: &mut RSrc) -> bool {
        match name {
            "dc_round" => h_dc_round(r),
            "rnd_int" => h_rnd_int(r),
            "basis_row0" => h_basis_row0(r),
            "basis_cos" => h_basis_cos(r),
            "idct1d_units" => h_idct1d_units(r),
            _ => return false,
        }
        true
    }
    #[test]
    fn verif_replay() {
        verif_replay_main(dispatch)
    }
}
