// A-SIMD: lane-wise models (Intel SDM semantics) of the x86 intrinsics that `wide`/`safe_arch` reach and
// Kani 0.68 does not model. Used only under cfg(kani) through #[kani::stub]; every counterexample is replayed
// natively on the real intrinsics, and tools/simd_stub_check differential-tests each model at setup.
use core::arch::x86_64::__m128i;

pub fn sra16_stub(a: __m128i, count: __m128i) -> __m128i {
    let a: [i16; 8] = unsafe { core::mem::transmute(a) };
    let c: [u64; 2] = unsafe { core::mem::transmute(count) };
    let s = if c[0] > 15 { 15 } else { c[0] as u32 };
    let mut r = [0i16; 8];
    let mut i = 0;
    while i < 8 {
        r[i] = a[i] >> s;
        i += 1;
    }
    unsafe { core::mem::transmute(r) }
}
pub fn max16_stub(a: __m128i, b: __m128i) -> __m128i {
    let a: [i16; 8] = unsafe { core::mem::transmute(a) };
    let b: [i16; 8] = unsafe { core::mem::transmute(b) };
    let mut r = [0i16; 8];
    let mut i = 0;
    while i < 8 {
        r[i] = if a[i] > b[i] { a[i] } else { b[i] };
        i += 1;
    }
    unsafe { core::mem::transmute(r) }
}
pub fn min16_stub(a: __m128i, b: __m128i) -> __m128i {
    let a: [i16; 8] = unsafe { core::mem::transmute(a) };
    let b: [i16; 8] = unsafe { core::mem::transmute(b) };
    let mut r = [0i16; 8];
    let mut i = 0;
    while i < 8 {
        r[i] = if a[i] < b[i] { a[i] } else { b[i] };
        i += 1;
    }
    unsafe { core::mem::transmute(r) }
}
pub fn sra32_stub(a: __m128i, count: __m128i) -> __m128i {
    let a: [i32; 4] = unsafe { core::mem::transmute(a) };
    let c: [u64; 2] = unsafe { core::mem::transmute(count) };
    let s = if c[0] > 31 { 31 } else { c[0] as u32 };
    let mut r = [0i32; 4];
    let mut i = 0;
    while i < 4 {
        r[i] = a[i] >> s;
        i += 1;
    }
    unsafe { core::mem::transmute(r) }
}
pub fn sll32_stub(a: __m128i, count: __m128i) -> __m128i {
    let a: [i32; 4] = unsafe { core::mem::transmute(a) };
    let c: [u64; 2] = unsafe { core::mem::transmute(count) };
    let mut r = [0i32; 4];
    let mut i = 0;
    while i < 4 {
        r[i] = if c[0] > 31 { 0 } else { ((a[i] as u32) << (c[0] as u32)) as i32 };
        i += 1;
    }
    unsafe { core::mem::transmute(r) }
}
