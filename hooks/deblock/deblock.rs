// Hook module of deblock/src/deblock.rs: Kani contracts (check harnesses + contract stubs) and native replay.
// Properties: C09 (Annex J kernel + geometry), C16 (every size accepted, Table J.2).
#![allow(dead_code, non_snake_case, unused_imports)]
use super::*;

include!("/verif/hooks/common.rs");
include!("/verif/spec/annex_j.rs");
#[cfg(kani)]
include!("/verif/hooks/simd_stubs.rs");

// ---------------------------------------------------------------------------------------------------------
// contract of the edge kernels:  process(A,B,C,D,s) / every lane of process_simd  ==  annex_j(A,B,C,D,s)
// ---------------------------------------------------------------------------------------------------------
fn h_kernel_scalar<S: Src>(s: &mut S) {
    let (mut a, mut b, mut c, mut d) = (s.u8(), s.u8(), s.u8(), s.u8());
    let st = s.u8();
    s.assume(st >= 1 && st <= 12);
    let e = annex_j(a, b, c, d, st);
    process(&mut a, &mut b, &mut c, &mut d, st);
    chk!(s, (a, b, c, d) == e, "deblock.process.post: result == annex_j(A,B,C,D,strength)");
    s.reach();
}

fn h_kernel_simd<S: Src>(s: &mut S) {
    let mut a: [u8; 8] = s.arr();
    let mut b: [u8; 8] = s.arr();
    let mut c: [u8; 8] = s.arr();
    let mut d: [u8; 8] = s.arr();
    let st = s.u8();
    s.assume(st >= 1 && st <= 12);
    let (a0, b0, c0, d0) = (a, b, c, d);
    process_simd(&mut a, &mut b, &mut c, &mut d, st);
    let mut i = 0;
    while i < 8 {
        let e = annex_j(a0[i], b0[i], c0[i], d0[i], st);
        chk!(s, (a[i], b[i], c[i], d[i]) == e, "deblock.process_simd.post: every lane == annex_j(A,B,C,D,strength)");
        i += 1;
    }
    s.reach();
}

// one symbolic lane in position L, the seven others symbolic too but only lane L is asserted:
// used by the quick tier (8 small queries instead of one large one)
fn h_kernel_simd_lane<S: Src, const L: usize>(s: &mut S) {
    let mut a: [u8; 8] = s.arr();
    let mut b: [u8; 8] = s.arr();
    let mut c: [u8; 8] = s.arr();
    let mut d: [u8; 8] = s.arr();
    let st = s.u8();
    s.assume(st >= 1 && st <= 12);
    let (a0, b0, c0, d0) = (a, b, c, d);
    process_simd(&mut a, &mut b, &mut c, &mut d, st);
    let e = annex_j(a0[L], b0[L], c0[L], d0[L], st);
    chk!(s, (a[L], b[L], c[L], d[L]) == e, "deblock.process_simd.post: every lane == annex_j(A,B,C,D,strength)");
    s.reach();
}

// ---------------------------------------------------------------------------------------------------------
// contract stubs of the kernels in abstract form: a cheap, non-commuting, strength- and order-sensitive
// surrogate K. `deblock` only *calls* the kernels and never inspects their results, so its geometry is verified
// against the kernels' contract with the kernel function left abstract (assumption A-PARAM).
// ---------------------------------------------------------------------------------------------------------
fn surrogate(a: u8, b: u8, c: u8, d: u8, st: u8) -> (u8, u8, u8, u8) {
    (b, a ^ 0x5A, d.wrapping_add(st), c)
}
fn k_scalar(A: &mut u8, B: &mut u8, C: &mut u8, D: &mut u8, strength: u8) {
    let (a, b, c, d) = surrogate(*A, *B, *C, *D, strength);
    *A = a;
    *B = b;
    *C = c;
    *D = d;
}
fn k_simd(A: &mut [u8], B: &mut [u8], C: &mut [u8], D: &mut [u8], strength: u8) {
    assert!(A.len() == 8 && B.len() == 8 && C.len() == 8 && D.len() == 8, "deblock.process_simd.pre: four slices of length 8");
    let mut i = 0;
    while i < 8 {
        let (a, b, c, d) = surrogate(A[i], B[i], C[i], D[i], strength);
        A[i] = a;
        B[i] = b;
        C[i] = c;
        D[i] = d;
        i += 1;
    }
}

// deblock(data, W, s) for an arbitrary W x H image and arbitrary strength 1..=12: no panic, same length,
// every byte equal to the geometry spec instantiated with kernel `k`.
fn geom_core<S: Src>(s: &mut S, data: &[u8], want: &mut [u8], w: usize, k: fn(u8, u8, u8, u8, u8) -> (u8, u8, u8, u8)) {
    let st = s.u8();
    s.assume(st >= 1 && st <= 12);
    let n = data.len();
    let out = deblock(data, w, st);
    chk!(s, out.len() == n, "deblock.deblock.post_len: output length == input length");
    deblock_geometry(want, w, st, k);
    let mut i = 0;
    let mut all = true;
    while i < n {
        if i < out.len() && out[i] != want[i] {
            all = false;
        }
        i += 1;
    }
    chk!(s, all, "deblock.deblock.post_geometry: every output byte == vertical_pass(horizontal_pass(input)) per Annex J geometry");
    s.reach();
}
fn h_geom<S: Src, const W: usize, const H: usize, const N: usize>(s: &mut S, k: fn(u8, u8, u8, u8, u8) -> (u8, u8, u8, u8)) {
    let data: [u8; N] = s.arr();
    let mut want = data;
    geom_core(s, &data, &mut want, W, k);
}
#[cfg(not(kani))]
fn h_geom_dyn(s: &mut RSrc, w: usize, h: usize) {
    let data: Vec<u8> = (0..w * h).map(|_| s.u8()).collect();
    let mut want = data.clone();
    // natively the real kernels run, so the postcondition is instantiated with annex_j
    geom_core(s, &data, &mut want, w, annex_j);
}

// the horizontal-edge pass alone on a WIDE image (W columns, 10 rows: one edge, rows 6..=9), rows 6..=9 symbolic, everything else zero:
// the first 8*(W/8) columns go through the 8-lane kernel, the remaining W%8 through the scalar one, each column exactly once
fn h_horiz_wide<S: Src, const W: usize, const N4: usize>(s: &mut S, k: fn(u8, u8, u8, u8, u8) -> (u8, u8, u8, u8)) {
    let rows: [u8; N4] = s.arr();
    let st = s.u8();
    s.assume(st >= 1 && st <= 12);
    let mut buf = vec![0u8; W * 10];
    let mut i = 0;
    while i < N4 {
        buf[6 * W + i] = rows[i];
        i += 1;
    }
    deblock_horiz(&mut buf, W, st);
    let mut ok = buf.len() == W * 10;
    let mut x = 0;
    while x < W {
        let (a, b, c, d) = k(rows[x], rows[W + x], rows[2 * W + x], rows[3 * W + x], st);
        if buf[6 * W + x] != a || buf[7 * W + x] != b || buf[8 * W + x] != c || buf[9 * W + x] != d {
            ok = false;
        }
        x += 1;
    }
    chk!(s, ok, "deblock.deblock_horiz.post_wide: on a wide image every column of the edge is filtered exactly once (8-lane chunks, then the scalar remainder)");
    s.reach();
}
fn h_table_j2<S: Src>(s: &mut S) {
    let mut i = 0;
    let mut ok = QUANT_TO_STRENGTH.len() == 32;
    while i < 31 {
        let (q, st) = TABLE_J2[i];
        if QUANT_TO_STRENGTH[q as usize] != st {
            ok = false;
        }
        i += 1;
    }
    chk!(s, ok, "deblock.QUANT_TO_STRENGTH.table_j2: entries 1..=31 == Table J.2/H.263");
    s.reach();
}

#[cfg(kani)]
mod proofs {
    use super::*;

    #[kani::proof]
    fn kernel_scalar() {
        h_kernel_scalar(&mut KSrc)
    }

    #[kani::proof]
    #[kani::unwind(10)]
    #[kani::stub(core::arch::x86_64::_mm_sra_epi16, sra16_stub)]
    #[kani::stub(core::arch::x86_64::_mm_max_epi16, max16_stub)]
    #[kani::stub(core::arch::x86_64::_mm_min_epi16, min16_stub)]
    fn kernel_simd() {
        h_kernel_simd(&mut KSrc)
    }

    macro_rules! horiz_wide {
        ($name:ident, $w:expr, $unw:expr) => {
            #[kani::proof]
            #[kani::unwind($unw)]
            #[kani::stub(super::super::scalar_impl::process, k_scalar)]
            #[kani::stub(super::super::simd_impl::process_simd, k_simd)]
            fn $name() {
                h_horiz_wide::<KSrc, $w, { 4 * $w }>(&mut KSrc, surrogate)
            }
        };
    }
    // horiz_wide!(horiz_wide_257, 257, 1032);  // tried: CBMC did not finish in 20 minutes (1028 symbolic bytes, 32 chunk iterations); not part of any tier

    macro_rules! lane {
        ($name:ident, $l:expr) => {
            #[kani::proof]
            #[kani::unwind(10)]
            #[kani::stub(core::arch::x86_64::_mm_sra_epi16, sra16_stub)]
            #[kani::stub(core::arch::x86_64::_mm_max_epi16, max16_stub)]
            #[kani::stub(core::arch::x86_64::_mm_min_epi16, min16_stub)]
            fn $name() {
                h_kernel_simd_lane::<KSrc, $l>(&mut KSrc)
            }
        };
    }
    lane!(kernel_simd_lane0, 0);
    lane!(kernel_simd_lane1, 1);
    lane!(kernel_simd_lane2, 2);
    lane!(kernel_simd_lane3, 3);
    lane!(kernel_simd_lane4, 4);
    lane!(kernel_simd_lane5, 5);
    lane!(kernel_simd_lane6, 6);
    lane!(kernel_simd_lane7, 7);

    #[kani::proof]
    #[kani::unwind(34)]
    fn table_j2() {
        h_table_j2(&mut KSrc)
    }

    // geometry with the kernels replaced by their contract stubs (surrogate form)
    macro_rules! geom {
        ($name:ident, $w:expr, $h:expr, $unw:expr) => {
            #[kani::proof]
            #[kani::unwind($unw)]
            #[kani::stub(super::super::scalar_impl::process, k_scalar)]
            #[kani::stub(super::super::simd_impl::process_simd, k_simd)]
            fn $name() {
                h_geom::<KSrc, $w, $h, { $w * $h }>(&mut KSrc, surrogate)
            }
        };
    }
    // geometry with the real kernels against annex_j
    macro_rules! real {
        ($name:ident, $w:expr, $h:expr, $unw:expr) => {
            #[kani::proof]
            #[kani::unwind($unw)]
            #[kani::stub(core::arch::x86_64::_mm_sra_epi16, sra16_stub)]
            #[kani::stub(core::arch::x86_64::_mm_max_epi16, max16_stub)]
            #[kani::stub(core::arch::x86_64::_mm_min_epi16, min16_stub)]
            fn $name() {
                h_geom::<KSrc, $w, $h, { $w * $h }>(&mut KSrc, annex_j)
            }
        };
    }
    include!("/verif/hooks/deblock/shapes.rs");
}

// native replay entry: VERIF_HARNESS names the harness, VERIF_WITNESS carries the bytes.
#[cfg(all(test, not(kani)))]
mod replay {
    use super::*;
    fn dispatch(name: &str, r: &mut RSrc) -> bool {
        match name {
            "kernel_scalar" => h_kernel_scalar(r),
            "kernel_simd" => h_kernel_simd(r),
            "kernel_simd_lane0" => h_kernel_simd_lane::<RSrc, 0>(r),
            "kernel_simd_lane1" => h_kernel_simd_lane::<RSrc, 1>(r),
            "kernel_simd_lane2" => h_kernel_simd_lane::<RSrc, 2>(r),
            "kernel_simd_lane3" => h_kernel_simd_lane::<RSrc, 3>(r),
            "kernel_simd_lane4" => h_kernel_simd_lane::<RSrc, 4>(r),
            "kernel_simd_lane5" => h_kernel_simd_lane::<RSrc, 5>(r),
            "kernel_simd_lane6" => h_kernel_simd_lane::<RSrc, 6>(r),
            "kernel_simd_lane7" => h_kernel_simd_lane::<RSrc, 7>(r),
            "table_j2" => h_table_j2(r),
            _ => {
                // geom_<W>x<H> / real_<W>x<H>
                let dims = name.rsplit('_').next().unwrap_or("");
                let mut it = dims.split('x');
                match (it.next().and_then(|v| v.parse().ok()), it.next().and_then(|v| v.parse().ok())) {
                    (Some(w), Some(h)) => h_geom_dyn(r, w, h),
                    _ => return false,
                }
            }
        }
        true
    }
    #[test]
    fn verif_replay() {
        verif_replay_main(dispatch)
    }
}
