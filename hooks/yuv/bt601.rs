// Hook module of yuv/src/bt601.rs: Kani contracts + native replay.  Properties: C07 (BT.601 per pixel), C08 (4:2:0 geometry).
#![allow(dead_code, unused_imports)]
use super::*;

include!("/verif/hooks/common.rs");
include!("/verif/spec/bt601.rs");
#[cfg(kani)]
include!("/verif/hooks/simd_stubs.rs");

// ---------------------------------------------------------------------------------------------------------
// C07: contract of the 4-pixel kernel: lane i of the output == bt601_spec::px(y[i], cb[i/2], cr[i/2])
// all eight input bytes symbolic => the whole 2^24 domain on each of the four lanes, lanes independent
// ---------------------------------------------------------------------------------------------------------
fn h_px4<S: Src>(s: &mut S) {
    let y: [u8; 4] = s.arr();
    let cb: [u8; 2] = s.arr();
    let cr: [u8; 2] = s.arr();
    let mut out = [0u8; 16];
    yuv_to_rgba_4x((&y, &cb, &cr), &mut out);
    let mut i = 0;
    while i < 4 {
        let e = bt601_spec::px(y[i], cb[i / 2], cr[i / 2]);
        chk!(s, out[4 * i] == e[0], "bt601.yuv_to_rgba_4x.post_r: R == 16.16 fixed-point BT.601");
        chk!(s, out[4 * i + 1] == e[1], "bt601.yuv_to_rgba_4x.post_g: G == 16.16 fixed-point BT.601");
        chk!(s, out[4 * i + 2] == e[2], "bt601.yuv_to_rgba_4x.post_b: B == 16.16 fixed-point BT.601");
        chk!(s, out[4 * i + 3] == 255, "bt601.yuv_to_rgba_4x.post_a: alpha == 255");
        i += 1;
    }
    s.reach();
}

// the coefficients the code uses are the BT.601 constants rounded to 16.16 (checked on the oracle's consts;
// a coefficient digit changed in the code fails h_px4 instead)
fn h_coeff<S: Src>(s: &mut S) {
    chk!(s, bt601_spec::C_Y == 76309 && bt601_spec::C_RV == 104597 && bt601_spec::C_GV == -53279 && bt601_spec::C_GU == -25675 && bt601_spec::C_BU == 132201,
          "spec.bt601.coefficients: round(65536*c) of the five BT.601 coefficients");
    s.reach();
}

// spec lemma: the fixed-point value is within 1 of the clamped real-valued formula (exact rationals)
fn h_within1<S: Src, const CH: usize>(s: &mut S) {
    let (y, cb, cr) = (s.u8(), s.u8(), s.u8());
    // R does not depend on Cb, B not on Cr: fix the irrelevant component to keep the query small
    let (cb, cr) = if CH == 0 { (128, cr) } else if CH == 2 { (cb, 128) } else { (cb, cr) };
    let p = bt601_spec::px(y, cb, cr);
    let real = bt601_spec::real_scaled(y, cb, cr);
    let d = p[CH] as i64 * bt601_spec::DEN - real[CH];
    chk!(s, d <= bt601_spec::DEN && d >= -bt601_spec::DEN, "spec.bt601.within_one: |fixed-point - clamp(real formula)| <= 1");
    s.reach();
}

// spec lemma: monotone in every component a channel depends on
fn h_monotone<S: Src>(s: &mut S) {
    let (y, cb, cr) = (s.u8(), s.u8(), s.u8());
    let p = bt601_spec::px(y, cb, cr);
    if y < 255 {
        let q = bt601_spec::px(y + 1, cb, cr);
        chk!(s, q[0] >= p[0] && q[1] >= p[1] && q[2] >= p[2], "spec.bt601.monotone_y: R,G,B non-decreasing in Y");
    }
    if cr < 255 {
        let q = bt601_spec::px(y, cb, cr + 1);
        chk!(s, q[0] >= p[0] && q[1] <= p[1] && q[2] == p[2], "spec.bt601.monotone_cr: R non-decreasing, G non-increasing, B independent of Cr");
    }
    if cb < 255 {
        let q = bt601_spec::px(y, cb + 1, cr);
        chk!(s, q[2] >= p[2] && q[1] <= p[1] && q[0] == p[0], "spec.bt601.monotone_cb: B non-decreasing, G non-increasing, R independent of Cb");
    }
    s.reach();
}

// ---------------------------------------------------------------------------------------------------------
// C08: geometry of yuv420_to_rgba against the kernel's contract.
// The caller never inspects what the kernel returns, so the pixel function F is left abstract: under Kani the
// kernel is replaced by its contract stub in tagging form F(y,cb,cr) = [y,cb,cr,255] (injective, so every
// mis-pairing of luma and chroma is visible); natively F = bt601_spec::px (the real kernel runs).
// ---------------------------------------------------------------------------------------------------------
fn tag_px(y: u8, cb: u8, cr: u8) -> [u8; 4] {
    [y, cb, cr, 255]
}
fn tag_stub(yuv: (&[u8; 4], &[u8; 2], &[u8; 2]), rgba: &mut [u8; 16]) {
    let (y, cb, cr) = yuv;
    let mut i = 0;
    while i < 4 {
        let p = tag_px(y[i], cb[i / 2], cr[i / 2]);
        rgba[4 * i] = p[0];
        rgba[4 * i + 1] = p[1];
        rgba[4 * i + 2] = p[2];
        rgba[4 * i + 3] = p[3];
        i += 1;
    }
}

fn geom_core<S: Src>(s: &mut S, y: &[u8], cb: &[u8], cr: &[u8], w: usize, h: usize, f: fn(u8, u8, u8) -> [u8; 4]) {
    let cw = (w + 1) / 2;
    let out = yuv420_to_rgba(y, cb, cr, w);
    chk!(s, out.len() == 4 * w * h, "bt601.yuv420_to_rgba.post_len: output holds width*height RGBA pixels");
    let mut ok = out.len() == 4 * w * h;
    let mut py = 0;
    while py < h {
        let mut px = 0;
        while px < w {
            let o = (px + py * w) * 4;
            let e = f(y[px + py * w], cb[px / 2 + (py / 2) * cw], cr[px / 2 + (py / 2) * cw]);
            if ok && !(out[o] == e[0] && out[o + 1] == e[1] && out[o + 2] == e[2] && out[o + 3] == e[3]) {
                ok = false;
            }
            px += 1;
        }
        py += 1;
    }
    chk!(s, ok, "bt601.yuv420_to_rgba.post_pixel: pixel (x,y) == F(Y[x,y], Cb[x/2,y/2], Cr[x/2,y/2]) for every x,y");
    s.reach();
}
fn h_geom<S: Src, const W: usize, const H: usize, const N: usize, const CN: usize>(s: &mut S, f: fn(u8, u8, u8) -> [u8; 4]) {
    let y: [u8; N] = s.arr();
    let cb: [u8; CN] = s.arr();
    let cr: [u8; CN] = s.arr();
    geom_core(s, &y, &cb, &cr, W, H, f);
}
#[cfg(not(kani))]
fn h_geom_dyn(s: &mut RSrc, w: usize, h: usize) {
    let cn = ((w + 1) / 2) * ((h + 1) / 2);
    let y: Vec<u8> = (0..w * h).map(|_| s.u8()).collect();
    let cb: Vec<u8> = (0..cn).map(|_| s.u8()).collect();
    let cr: Vec<u8> = (0..cn).map(|_| s.u8()).collect();
    geom_core(s, &y, &cb, &cr, w, h, bt601_spec::px);
}
fn h_empty<S: Src>(s: &mut S) {
    let out = yuv420_to_rgba(&[], &[], &[], 0);
    chk!(s, out.is_empty(), "bt601.yuv420_to_rgba.post_empty: an empty picture yields an empty output");
    s.reach();
}

#[cfg(kani)]
mod proofs {
    use super::*;

    #[kani::proof]
    #[kani::unwind(6)]
    #[kani::stub(core::arch::x86_64::_mm_sra_epi32, sra32_stub)]
    #[kani::stub(core::arch::x86_64::_mm_sll_epi32, sll32_stub)]
    fn px4() {
        h_px4(&mut KSrc)
    }
    #[kani::proof]
    fn coeff() {
        h_coeff(&mut KSrc)
    }
    #[kani::proof]
    fn within1_r() {
        h_within1::<KSrc, 0>(&mut KSrc)
    }
    #[kani::proof]
    fn within1_g() {
        h_within1::<KSrc, 1>(&mut KSrc)
    }
    #[kani::proof]
    fn within1_b() {
        h_within1::<KSrc, 2>(&mut KSrc)
    }
    #[kani::proof]
    fn monotone() {
        h_monotone(&mut KSrc)
    }
    #[kani::proof]
    #[kani::unwind(4)]
    fn empty() {
        h_empty(&mut KSrc)
    }
    macro_rules! geom {
        ($name:ident, $w:expr, $h:expr, $unw:expr) => {
            #[kani::proof]
            #[kani::unwind($unw)]
            #[kani::stub(super::super::yuv_to_rgba_4x, tag_stub)]
            fn $name() {
                h_geom::<KSrc, $w, $h, { $w * $h }, { (($w + 1) / 2) * (($h + 1) / 2) }>(&mut KSrc, tag_px)
            }
        };
    }
    include!("/verif/hooks/yuv/shapes.rs");
}

#[cfg(all(test, not(kani)))]
mod replay {
    use super::*;
    fn dispatch(name: &str, r: &mut RSrc) -> bool {
        match name {
            "px4" => h_px4(r),
            "coeff" => h_coeff(r),
            "within1_r" => h_within1::<RSrc, 0>(r),
            "within1_g" => h_within1::<RSrc, 1>(r),
            "within1_b" => h_within1::<RSrc, 2>(r),
            "monotone" => h_monotone(r),
            "empty" => h_empty(r),
            _ => {
                let dims = name.rsplit('_').next().unwrap_or("");
                let mut it = dims.split('x');
                match (it.next().and_then(|v| v.parse().ok()), it.next().and_then(|v| v.parse().ok())) {
                    (Some(w), Some(h)) => h_geom_dyn(r, w, h),
                    _ => return false,
                }
            }
        }
        true
    }
    #[test]
    fn verif_replay() {
        verif_replay_main(dispatch)
    }
}
