// verification hook for yuv/src/bt601.rs (compiled only under cfg(kani) or cfg(ruffle_rs_h263_rs_verif))
