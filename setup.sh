#!/bin/sh
# Offline setup: nothing is fetched or installed; verify the pre-installed tools answer and create the work dir.
set -e
export CARGO_NET_OFFLINE=true
WORK="${VERIF_WORK:-/var/tmp/h263-verif}"
mkdir -p "$WORK/logs"
verus --version >/dev/null
cargo kani --version >/dev/null
python3 -c "import json,re,subprocess"
echo "setup ok: work dir $WORK"
