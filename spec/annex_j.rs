// ORACLE — ITU-T H.263 (01/2005) Annex J, clause J.3, written from the Recommendation (not from /repo):
//
//   B1 = clip(B + d1)      C1 = clip(C - d1)      A1 = A - d2      D1 = D + d2
//   d  = (A - 4B + 4C - D) / 8
//   d1 = UpDownRamp(d, STRENGTH)
//   d2 = clipd1((A - D) / 4, d1 / 2)
//   UpDownRamp(x, STRENGTH) = SIGN(x) * (MAX(0, abs(x) - MAX(0, 2 * (abs(x) - STRENGTH))))
//   clipd1(x, lim) clips x to the range +/- abs(lim);   clip() clips to 0..255;
//   "/" is integer division with truncation toward zero (H.263 clause 3.2 / 4, arithmetic operators).
//
// Evaluated in i32 so that the oracle itself cannot overflow.
#[allow(dead_code)]
pub fn annex_j(a: u8, b: u8, c: u8, d: u8, strength: u8) -> (u8, u8, u8, u8) {
    let (a, b, c, d, s) = (a as i32, b as i32, c as i32, d as i32, strength as i32);
    let dd = (a - 4 * b + 4 * c - d) / 8; // Rust `/` on i32 truncates toward zero
    let ad = if dd < 0 { -dd } else { dd };
    let inner = 2 * (ad - s);
    let inner = if inner > 0 { inner } else { 0 };
    let ramp = ad - inner;
    let ramp = if ramp > 0 { ramp } else { 0 };
    let d1 = if dd < 0 { -ramp } else { ramp };
    let lim = d1 / 2;
    let lim = if lim < 0 { -lim } else { lim };
    let x = (a - d) / 4;
    let d2 = if x < -lim { -lim } else if x > lim { lim } else { x };
    let clip = |v: i32| -> u8 { if v < 0 { 0 } else if v > 255 { 255 } else { v as u8 } };
    ((a - d2) as u8, clip(b + d1), clip(c - d1), (d + d2) as u8)
}

// Table J.2/H.263 — Relationship between QUANT and STRENGTH of filter (typed in from the Recommendation).
//   QUANT    1 2 3 4 5 6 7 8 9 10 11 12 13 14 15 16 17 18 19 20 21 22 23 24 25 26 27 28 29 30 31
//   STRENGTH 1 1 2 2 3 3 4 4 4  5  5  6  6  7  7  7  8  8  8  9  9  9 10 10 10 11 11 11 12 12 12
#[allow(dead_code)]
pub const TABLE_J2: [(u8, u8); 31] = [
    (1, 1), (2, 1), (3, 2), (4, 2), (5, 3), (6, 3), (7, 4), (8, 4), (9, 4), (10, 5), (11, 5), (12, 6),
    (13, 6), (14, 7), (15, 7), (16, 7), (17, 8), (18, 8), (19, 8), (20, 9), (21, 9), (22, 9), (23, 10),
    (24, 10), (25, 10), (26, 11), (27, 11), (28, 11), (29, 12), (30, 12), (31, 12),
];

// Geometry of the deblocking pass (C09 statement): the four-sample kernel `k` is applied first across every
// horizontal 8-aligned interior block edge (rows 8k-2, 8k-1, 8k, 8k+1 of every column, when all four rows
// exist) and then across every vertical one (columns 8k-2 .. 8k+1 of every row, when all four columns exist);
// every other sample is left unchanged. `buf` holds the image on entry and the result on exit.
#[allow(dead_code)]
pub fn deblock_geometry(
    buf: &mut [u8],
    w: usize,
    strength: u8,
    k: fn(u8, u8, u8, u8, u8) -> (u8, u8, u8, u8),
) {
    let h = if w == 0 { 0 } else { buf.len() / w };
    let mut e = 8;
    while e + 1 < h {
        let mut x = 0;
        while x < w {
            let (ia, ib, ic, id) = (x + (e - 2) * w, x + (e - 1) * w, x + e * w, x + (e + 1) * w);
            let (a, b, c, d) = k(buf[ia], buf[ib], buf[ic], buf[id], strength);
            buf[ia] = a;
            buf[ib] = b;
            buf[ic] = c;
            buf[id] = d;
            x += 1;
        }
        e += 8;
    }
    let mut e = 8;
    while e + 1 < w {
        let mut y = 0;
        while y < h {
            let (ia, ib, ic, id) = (e - 2 + y * w, e - 1 + y * w, e + y * w, e + 1 + y * w);
            let (a, b, c, d) = k(buf[ia], buf[ib], buf[ic], buf[id], strength);
            buf[ia] = a;
            buf[ib] = b;
            buf[ic] = c;
            buf[id] = d;
            y += 1;
        }
        e += 8;
    }
}
