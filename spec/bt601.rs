// ORACLE — ITU-R BT.601 studio-range Y'CbCr (Y 16..235, C 16..240) to full-range R'G'B', written from the
// defining constants (Kr = 0.299, Kb = 0.114, Kg = 0.587; 2(1-Kr) = 1.402; 2(1-Kb) = 1.772), not from /repo:
//
//   R = 255/219 (Y-16) + 255/224 * 1.402 (Cr-128)
//   G = 255/219 (Y-16) - 255/224 * 1.402 * 0.299/0.587 (Cr-128) - 255/224 * 1.772 * 0.114/0.587 (Cb-128)
//   B = 255/219 (Y-16) + 255/224 * 1.772 (Cb-128)
//
// evaluated in 16.16 fixed point: each coefficient is round(65536 * c) (computed below from the rationals),
// the sum gets +0.5 (32768) and an arithmetic shift by 16 (round to nearest), then clamp to 0..255.
#[allow(dead_code)]
pub mod bt601_spec {
    const fn round_div(n: i128, d: i128) -> i64 {
        // round half away from zero of n/d, d > 0
        if n >= 0 {
            ((2 * n + d) / (2 * d)) as i64
        } else {
            -(((2 * (-n) + d) / (2 * d)) as i64)
        }
    }
    pub const C_Y: i64 = round_div(65536 * 255, 219);
    pub const C_RV: i64 = round_div(65536 * 255 * 1402, 224 * 1000);
    pub const C_GV: i64 = round_div(-65536 * 255 * 1402 * 299, 224 * 1000 * 587);
    pub const C_GU: i64 = round_div(-65536 * 255 * 1772 * 114, 224 * 1000 * 587);
    pub const C_BU: i64 = round_div(65536 * 255 * 1772, 224 * 1000);

    fn clamp255(v: i64) -> u8 {
        if v < 0 {
            0
        } else if v > 255 {
            255
        } else {
            v as u8
        }
    }
    /// the 16.16 fixed-point conversion of one (Y, Cb, Cr) triple: [R, G, B, A]
    pub fn px(y: u8, cb: u8, cr: u8) -> [u8; 4] {
        let (y, cb, cr) = (y as i64 - 16, cb as i64 - 128, cr as i64 - 128);
        let r = (C_Y * y + C_RV * cr + 32768) >> 16;
        let g = (C_Y * y + C_GV * cr + C_GU * cb + 32768) >> 16;
        let b = (C_Y * y + C_BU * cb + 32768) >> 16;
        [clamp255(r), clamp255(g), clamp255(b), 255]
    }

    // The real-valued formula in exact rationals, scaled by DEN = 219*224*1000*587 (common denominator of
    // all five coefficients), for the "within 1 of the real-valued formula" clause.
    pub const DEN: i64 = 219 * 224 * 1000 * 587;
    pub fn real_scaled(y: u8, cb: u8, cr: u8) -> [i64; 3] {
        let (y, cb, cr) = (y as i64 - 16, cb as i64 - 128, cr as i64 - 128);
        let gray = 255 * 224 * 1000 * 587 * y; // 255/219 * DEN
        let rv = 255 * 219 * 1402 * 587 * cr; // 255/224 * 1.402 * DEN
        let gv = -255 * 219 * 1402 * 299 * cr; // -255/224 * 1.402 * 0.299/0.587 * DEN
        let gu = -255 * 219 * 1772 * 114 * cb;
        let bu = 255 * 219 * 1772 * 587 * cb;
        let c = |v: i64| -> i64 { if v < 0 { 0 } else if v > 255 * DEN { 255 * DEN } else { v } };
        [c(gray + rv), c(gray + gv + gu), c(gray + bu)]
    }
}
