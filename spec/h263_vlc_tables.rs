// Variable-length code tables typed from ITU-T H.263 (01/2005), NOT from the code: Table 7 (MCBPC, I pictures), Table 8 (MCBPC, P pictures),
// Table 13 (CBPY), and the facts about Table 16 (TCOEF) that can be stated without retyping all 102 code words: the event set (LMAX per
// run), the ESCAPE code and the shortest codes.
#[allow(dead_code)]
pub mod h263_vlc_spec {
    // Table 7/H.263: (code word, macroblock type 3 = INTRA / 4 = INTRA+Q, CBPC bit for Cb, CBPC bit for Cr)
    pub const MCBPC_I: [(&str, u8, bool, bool); 8] = [
        ("1", 3, false, false), ("001", 3, false, true), ("010", 3, true, false), ("011", 3, true, true),
        ("0001", 4, false, false), ("000001", 4, false, true), ("000010", 4, true, false), ("000011", 4, true, true),
    ];
    pub const MCBPC_STUFFING: &str = "000000001";
    // Table 8/H.263: macroblock types 0 INTER, 1 INTER+Q, 2 INTER4V, 3 INTRA, 4 INTRA+Q, 5 INTER4V+Q
    pub const MCBPC_P: [(&str, u8, bool, bool); 24] = [
        ("1", 0, false, false), ("0011", 0, false, true), ("0010", 0, true, false), ("000101", 0, true, true),
        ("011", 1, false, false), ("0000111", 1, false, true), ("0000110", 1, true, false), ("000000101", 1, true, true),
        ("010", 2, false, false), ("0000101", 2, false, true), ("0000100", 2, true, false), ("00000101", 2, true, true),
        ("00011", 3, false, false), ("00000100", 3, false, true), ("00000011", 3, true, false), ("0000011", 3, true, true),
        ("000100", 4, false, false), ("000000100", 4, false, true), ("000000011", 4, true, false), ("000000010", 4, true, true),
        ("00000000010", 5, false, false), ("0000000001100", 5, false, true), ("0000000001110", 5, true, false), ("0000000001111", 5, true, true),
    ];
    // Table 13/H.263: (code word, CBPY for INTRA macroblocks as bits Y1 Y2 Y3 Y4; INTER macroblocks use the complement)
    pub const CBPY_INTRA: [(&str, u8); 16] = [
        ("0011", 0b0000), ("00101", 0b0001), ("00100", 0b0010), ("1001", 0b0011), ("00011", 0b0100), ("0111", 0b0101), ("000010", 0b0110), ("1011", 0b0111),
        ("00010", 0b1000), ("000011", 0b1001), ("0101", 0b1010), ("1010", 0b1011), ("0100", 0b1100), ("1000", 0b1101), ("0110", 0b1110), ("11", 0b1111),
    ];
    // Table 16/H.263: the largest LEVEL that has a code word, per (LAST, RUN); 0 = no code word. 58 + 44 = 102 events.
    pub fn tcoef_lmax(last: bool, run: u8) -> u8 {
        if !last {
            match run {
                0 => 12,
                1 => 6,
                2 => 4,
                3..=6 => 3,
                7..=10 => 2,
                11..=26 => 1,
                _ => 0,
            }
        } else {
            match run {
                0 => 3,
                1 => 2,
                2..=40 => 1,
                _ => 0,
            }
        }
    }
    pub const TCOEF_ESCAPE: &str = "0000011";
    // the five shortest code words (without the sign bit): (code, LAST, RUN, LEVEL)
    pub const TCOEF_SHORTEST: [(&str, bool, u8, u8); 5] = [("10", false, 0, 1), ("110", false, 1, 1), ("1110", false, 2, 1), ("1111", false, 0, 2), ("0111", true, 0, 1)];
}
