// ORACLES typed from ITU-T H.263 (01/2005); nothing here is copied from /repo.
#[allow(dead_code)]
pub mod h263_spec {
    // Figure 14/H.263 — zigzag positioning of quantized transform coefficients: entry [v][u] (v = row = vertical
    // frequency, u = column = horizontal frequency) is the 1-based transmission order of coefficient (u, v).
    pub const ZIGZAG_ORDER: [[u8; 8]; 8] = [
        [1, 2, 6, 7, 15, 16, 28, 29],
        [3, 5, 8, 14, 17, 27, 30, 43],
        [4, 9, 13, 18, 26, 31, 42, 44],
        [10, 12, 19, 25, 32, 41, 45, 54],
        [11, 20, 24, 33, 40, 46, 53, 55],
        [21, 23, 34, 39, 47, 52, 56, 61],
        [22, 35, 38, 48, 51, 57, 60, 62],
        [36, 37, 49, 50, 58, 59, 63, 64],
    ];
    /// (row, col) of the k-th transmitted coefficient (k 0-based)
    pub fn zigzag_pos(k: usize) -> (usize, usize) {
        let mut r = 0;
        while r < 8 {
            let mut c = 0;
            while c < 8 {
                if ZIGZAG_ORDER[r][c] as usize == k + 1 {
                    return (r, c);
                }
                c += 1;
            }
            r += 1;
        }
        (8, 8)
    }

    // 6.2.1 inverse quantization: |REC| = QUANT * (2*|LEVEL| + 1)        if QUANT is odd
    //                             |REC| = QUANT * (2*|LEVEL| + 1) - 1    if QUANT is even
    // REC = sign(LEVEL) * |REC|; 6.2.2 clipping of reconstruction levels to -2048..2047.
    pub fn dequant(quant: u8, level: i16) -> i32 {
        let q = quant as i32;
        let l = level as i32;
        let a = if l < 0 { -l } else { l };
        if a == 0 {
            return 0;
        }
        let mut rec = q * (2 * a + 1);
        if q % 2 == 0 {
            rec -= 1;
        }
        let rec = if l < 0 { -rec } else { rec };
        if rec < -2048 {
            -2048
        } else if rec > 2047 {
            2047
        } else {
            rec
        }
    }

    // Table 15/H.263 reconstruction levels for INTRADC: FLC 0000 0001 (1) .. 1111 1110 (254) -> 8 * code, except
    // 1111 1111 (255) -> 1024; 0000 0000 and 1000 0000 are not used.
    pub fn intradc_level(code: u8) -> Option<i32> {
        if code == 0 || code == 128 {
            None
        } else if code == 255 {
            Some(1024)
        } else {
            Some(8 * code as i32)
        }
    }

    // 6.1.1, Table 16/H.263 — "Modified rounding for 1/16 resolution chrominance vector components":
    // sixteenth-pixel position 0..15 -> resulting position in half-sample units
    pub const CHROMA_ROUND: [i32; 16] = [0, 0, 0, 1, 1, 1, 1, 1, 1, 1, 1, 1, 1, 1, 2, 2];
    /// chroma vector component (half-sample units) from the sum of the four luma components (half-sample units):
    /// sum/8 in sixteenth-sample units, rounded by the table, applied to the magnitude
    pub fn chroma_from_sum(sum: i32) -> i32 {
        let a = if sum < 0 { -sum } else { sum };
        let r = CHROMA_ROUND[(a % 16) as usize] + (a / 16) * 2;
        if sum < 0 {
            -r
        } else {
            r
        }
    }

    // 6.1.1: each component restricted to [-16, +15.5]: of the pair of differences coded by one MVD codeword exactly one
    // yields a vector in range; equivalently the sum is reduced modulo 32 samples (64 half-sample units) into [-32, 31].
    pub fn wrap32(v: i32) -> i32 {
        let mut r = (v + 32) % 64;
        if r < 0 {
            r += 64;
        }
        r - 32
    }

    pub fn median3(a: i32, b: i32, c: i32) -> i32 {
        // the middle value
        if (a <= b && b <= c) || (c <= b && b <= a) {
            b
        } else if (b <= a && a <= c) || (c <= a && a <= b) {
            a
        } else {
            c
        }
    }

    // Table 14/H.263 — VLC table for MVD. Code = PREFIX[m] followed by a sign bit (0: +m/2 samples, 1: -m/2 samples) for
    // magnitude m = 1..31 half-sample units; "1" codes 0; "0000 0000 0010 1" codes -16 (m = 32, negative only).
    pub const MVD_PREFIX: [&str; 32] = [
        "", "01", "001", "0001", "000011", "0000101", "0000100", "0000011", "000001011", "000001010", "000001001",
        "0000010001", "0000010000", "0000001111", "0000001110", "0000001101", "0000001100", "0000001011", "0000001010",
        "0000001001", "0000001000", "0000000111", "0000000110", "0000000101", "0000000100", "00000000111", "00000000110",
        "00000000101", "00000000100", "00000000011", "00000000010", "000000000011",
    ];
    pub const MVD_ZERO: &str = "1";
    pub const MVD_MINUS16: &str = "0000000000101";

    // 5.3.6 DQUANT: 00 -> -1, 01 -> -2, 10 -> +1, 11 -> +2;  QUANT after the change is clipped to 1..31
    pub fn dquant(code: u8) -> i32 {
        match code & 3 {
            0 => -1,
            1 => -2,
            2 => 1,
            _ => 2,
        }
    }
}
