# Which obligations serve which property, per tier.
import os, re
import vlib

PROPS = {}


def shapes(path, kind):
    out = []
    for line in open(os.path.join(vlib.VERIF, path)):
        m = re.match(r"(\w+)!\((\w+), (\d+), (\d+), (\d+)\);", line.strip())
        if m and m.group(1) == kind:
            out.append((m.group(2), int(m.group(3)), int(m.group(4))))
    return out


DEBLOCK = dict(crate="deblock", prefix="deblock::verif_hook::proofs", replay_mod="deblock::verif_hook::replay")
# quick: h<2, w<10, horizontal-pass SIMD chunk + scalar remainder, vertical-pass SIMD rows + scalar remainder rows, two edges in each direction
DEBLOCK_QUICK_SIZES = {(1, 0), (1, 1), (3, 1), (9, 2), (8, 10), (10, 9), (11, 10), (18, 10), (10, 18)}


def _deblock_geom(tier):
    hs = []
    for name, w, h in shapes("hooks/deblock/shapes.rs", "geom"):
        if tier == "quick" and (w, h) not in DEBLOCK_QUICK_SIZES:
            continue
        hs.append(dict(DEBLOCK, name=name, nbytes=w * h + 1, timeout=900,
                       what="deblock(data,%d,s) on an arbitrary %dx%d image, s in 1..=12: no panic, len preserved, every byte == Annex J geometry (kernels by contract stub)" % (w, w, h),
                       bound="image %dx%d (contents and strength symbolic)" % (w, h)))
    return hs


YUV = dict(crate="yuv", prefix="bt601::verif_hook::proofs", replay_mod="bt601::verif_hook::replay")
YUV_QUICK_SIZES = {(1, 1), (2, 1), (3, 2), (4, 2), (5, 3), (7, 3), (9, 2), (6, 1)}

VERUS_WITNESS = {}


def H(mod):
    return dict(crate="h263", prefix=mod + "::verif_hook::proofs", replay_mod=mod + "::verif_hook::replay")


TYPES, MVD, RLE, MBK = H("types"), H("decoder::cpu::mvd_pred"), H("decoder::cpu::rle"), H("parser::macroblock")
GATH = H("decoder::cpu::gather")
PICT, STAT = H("decoder::picture"), H("decoder::state")
PPIC = H("parser::picture")


def _w(h, name, nbytes, tries=4000):
    return ("h263", h["replay_mod"], name, nbytes, tries)


# (unit, function) -> sibling harnesses used as native witness search when the Verus obligation of that function fails
VERUS_WITNESS.update({
    ("*", "gather_block"): [_w(GATH, "gb_dyn", 3300, 20000)],
    ("*", "read_sample"): [_w(GATH, "read_sample_dyn", 420)],
    ("*", "lerp"): [_w(GATH, "lerp_dyn", 3)],
    ("*", "average_sum_of_mvs"): [_w(TYPES, "chroma_round", 2, 200000)],
    ("*", "median_of"): [_w(TYPES, "median", 6, 100000)],
    ("*", "into_lerp_parameters"): [_w(TYPES, "lerp_params", 2, 70000)],
    ("*", "invert"): [_w(TYPES, "invert_range", 4, 70000)],
    ("*", "is_mv_within_range"): [_w(TYPES, "invert_range", 4, 70000)],
    ("*", "halfpel_decode"): [_w(MVD, "halfpel_base", 12, 100000)],
    ("*", "mv_decode"): [_w(MVD, "mv_decode_base", 8, 100000)],
    ("*", "predict_candidate"): [_w(MVD, "predict_c3_m4", 160, 20000), _w(MVD, "predict_c2_m3", 128, 20000), _w(MVD, "predict_c1_m1", 64, 20000)],
    ("*", "inverse_rle"): [_w(RLE, "single_intra", 5, 100000), _w(RLE, "multi3", 12, 50000)],
    ("*", "into_level"): [_w(TYPES, "intradc", 1, 2000)],
    ("state", "*"): [("h263", "decoder::state::verif_hook::replay", "history_dyn", 64, 100000)],
    ("picture", "*"): [("h263", "parser::picture::verif_hook::replay", "hdr_std_dyn", 80, 300000), ("h263", "parser::picture::verif_hook::replay", "hdr_sor_dyn", 80, 100000)],
})


def kani_harnesses(prop, tier):
    hs = []
    if prop == "C07":
        hs.append(dict(YUV, name="px4", nbytes=8, timeout=1200, what="yuv_to_rgba_4x: all 8 input bytes symbolic; lane i == bt601_spec::px(y[i], cb[i/2], cr[i/2]) ++ [255] (whole 2^24 domain on each lane)"))
        hs.append(dict(YUV, name="coeff", nbytes=0, what="the five 16.16 coefficients == round(65536*c) of the BT.601 rationals"))
        if tier == "thorough":
            hs.append(dict(YUV, name="within1_r", nbytes=3, what="oracle lemma on the Rust oracle: |R_fixed - clamp(real)| <= 1"))
            hs.append(dict(YUV, name="within1_b", nbytes=3, what="oracle lemma on the Rust oracle: |B_fixed - clamp(real)| <= 1"))
            hs.append(dict(YUV, name="monotone", nbytes=3, timeout=1200, what="oracle lemma on the Rust oracle: monotone in Y, Cb, Cr"))
    if prop == "C11":
        hs.append(dict(RLE, name="single_inter", nbytes=4, timeout=900, what="inverse_rle, one event, no INTRADC: every quantizer 1..=31 x level -1023..=1023 (non-zero) x run 0..=63: coefficient at its Figure-14 position == sat(sign(L)(Q(2|L|+1) - [Q even])), all others 0, sparsity class right"))
        hs.append(dict(RLE, name="single_intra", nbytes=5, timeout=900, what="same with an INTRADC code (all valid codes): DC == Table 15 level, event lands one position later"))
        hs.append(dict(RLE, name="zigzag", nbytes=0, what="DEZIGZAG_MAPPING == Figure 14/H.263 (64 entries)"))
        hs.append(dict(TYPES, name="intradc", nbytes=1, what="IntraDc::from_u8 / into_level == Table 15 for all 256 codes (0 and 128 rejected, 255 -> 1024, else 8*code)"))
    if prop in ("C01", "C04", "C05", "C13"):
        # discharge of what the Verus state/picture units assume about floats, lazy_statics and the bitflags model (R6, A-BITFLAGS)
        hs.append(dict(STAT, name="ceil_div16", nbytes=2, what="R6: `(x as f64 / 16.0).ceil() as usize` == (x + 15) / 16 for every u16 (macroblocks per line / rows)"))
        hs.append(dict(STAT, name="option_masks", nbytes=0, what="R6: *OPPTYPE_OPTIONS == 0x1FF8 and *MPPTYPE_OPTIONS == 0xE000 on the real lazy_statics"))
        hs.append(dict(STAT, name="bitflags_model", nbytes=9, what="A-BITFLAGS: |, &, !, contains, empty and the flag constants of the real bitflags-generated PictureOption / DecoderOption agree with the `bits` model used in the Verus units, all 2^17 x 2^17 operand pairs"))
        hs.append(dict(PICT, name="ceil_half", nbytes=2, what="R6: `(w as f32 / 2.0).ceil() as usize` == (w + 1) / 2 for every u16 (chroma plane width / height)"))
    if prop == "C13":
        hs.append(dict(PICT, name="new_sizes", nbytes=2, what="DecodedPicture::new on the real code, all (w, h) <= 40: luma w*h, chroma ceil(w/2)*ceil(h/2), chroma row ceil(w/2); Reserved -> None", bound="w, h <= 40 (the Verus proof of the same function is unbounded)"))
        hs.append(dict(DEBLOCK, name="table_j2", nbytes=0, what="QUANT_TO_STRENGTH[1..=31] == Table J.2 (hence in 1..=12, the strengths deblock accepts)"))
        for name, w, h in shapes("hooks/deblock/shapes.rs", "geom"):
            if (w, h) in {(1, 1), (3, 1), (9, 2), (10, 9)} or (tier == "thorough" and w <= 12 and h >= 1):
                hs.append(dict(DEBLOCK, name=name, nbytes=w * h + 1, timeout=900, only_checks=r"^(?!.*post_geometry)", what="deblock accepts a %dx%d plane with every strength 1..=12 without panic (plane of a decoded picture)" % (w, h), bound="plane %dx%d" % (w, h)))
        for name, w, h in shapes("hooks/yuv/shapes.rs", "geom"):
            if (w, h) in {(1, 1), (2, 1), (3, 2), (5, 3), (9, 2)} or tier == "thorough":
                cn = ((w + 1) // 2) * ((h + 1) // 2)
                hs.append(dict(YUV, name=name, nbytes=w * h + 2 * cn, timeout=900, only_checks=r"^(?!.*post_pixel)", what="yuv420_to_rgba accepts the planes of a %dx%d picture and returns exactly w*h pixels" % (w, h), bound="picture %dx%d" % (w, h)))
    if prop == "C06":
        hs.append(dict(PPIC, name="option_mask", nbytes=0, what="R6: picture.rs's *OPPTYPE_OPTIONS == 0x1FF8 on the real lazy_static"))
        hs.append(dict(PPIC, name="bitflags_model2", nbytes=2, what="A-BITFLAGS: PlusPTypeFollower / SliceSubmode / ReferencePictureSelectionMode operators and constants agree with the `bits` model of the Verus picture unit"))
        hs.append(dict(STAT, name="bitflags_model", nbytes=9, what="A-BITFLAGS: PictureOption / DecoderOption operators (incl. `|=`, rule R12) agree with the `bits` model"))
    if prop == "C03":
        for n, w in [("lerp_params", "HalfPel::into_lerp_parameters == (floor(v/2), v odd) for every i16 (contract assumed by the Verus gather unit)"),
                     ("chroma_round", "HalfPel::average_sum_of_mvs == Table 16 rounding of sum/8 for every i16 sum"),
                     ("median", "HalfPel::median_of == the middle value, all i16 triples (contract assumed by the Verus mvd_pred unit)"),
                     ("invert_range", "HalfPel::invert / is_mv_within_range (contract assumed by the Verus mvd_pred unit)"),
                     ("mv_wrappers", "MotionVector wrappers are component-wise")]:
            hs.append(dict(TYPES, name=n, nbytes=12, what=w))
    if prop == "C12":
        for n, w in [("lerp_params", "HalfPel::into_lerp_parameters == (floor(v/2), v odd) for every i16"),
                     ("invert_range", "HalfPel::invert == v -/+ 64; is_mv_within_range == (-range <= v < range), all i16"),
                     ("chroma_round", "HalfPel::average_sum_of_mvs == Table 16 (sixteenth-position rounding) applied to sum/8, every i16 sum"),
                     ("median", "HalfPel::median_of == the middle value, all i16 triples"),
                     ("add", "HalfPel / MotionVector addition exact for operands within +-8192"),
                     ("mv_wrappers", "MotionVector median / chroma rounding / lerp split / tuple conversions are component-wise")]:
            hs.append(dict(TYPES, name=n, nbytes=12, what=w))
        hs.append(dict(MVD, name="halfpel_base", nbytes=12, what="halfpel_decode without UMV: all 64x64 (predictor, differential) pairs, either component, any other option bits, with/without PLUSPTYPE, any UUI: result == (p + d) mod 64 in [-32,31]"))
        hs.append(dict(MVD, name="mv_decode_base", nbytes=8, what="mv_decode == halfpel_decode per component"))
        hs.append(dict(MBK, name="mvd_table", nbytes=0, timeout=900, what="MVD_TABLE == Table 14/H.263: all 64 code words walk to their vector difference, HalfPel::from(f32) exact, exactly 64 value leaves"))
        for line in open(os.path.join(vlib.VERIF, "hooks/h263/decoder/cpu/mvd_pred_shapes.rs")):
            m = re.match(r"predict!\((\w+), (\d+), (\d+)\);", line.strip())
            if m:
                cols, cur = int(m.group(2)), int(m.group(3))
                if tier == "quick" and cols == 4 and cur < 4:
                    pass
                hs.append(dict(MVD, name=m.group(1), nbytes=8 * (cur * 4 + 3) , timeout=900,
                               what="predict_candidate, %d macroblocks per line, macroblock #%d (row %d, col %d), blocks 0..3, all stored vectors symbolic: == median of the H.263 6.1.1 / Figure F.2 candidates with the edge rules" % (cols, cur, cur // cols, cur % cols),
                               bound="grid %d columns, macroblock %d" % (cols, cur)))
    if prop == "C08":
        hs.append(dict(YUV, name="empty", nbytes=0, what="yuv420_to_rgba(&[],&[],&[],0) returns an empty vector without panic"))
        for name, w, h in shapes("hooks/yuv/shapes.rs", "geom"):
            if tier == "quick" and (w, h) not in YUV_QUICK_SIZES:
                continue
            cn = ((w + 1) // 2) * ((h + 1) // 2)
            hs.append(dict(YUV, name=name, nbytes=w * h + 2 * cn, timeout=900,
                           what="yuv420_to_rgba on an arbitrary %dx%d picture: 4*w*h bytes, pixel (x,y) == F(Y[x,y], Cb[x/2,y/2], Cr[x/2,y/2]) for every pixel (kernel by contract stub, tagging form)" % (w, h),
                           bound="picture %dx%d (plane contents symbolic)" % (w, h)))
    if prop == "C09":
        hs.append(dict(DEBLOCK, name="kernel_scalar", nbytes=5, what="scalar_impl::process(A,B,C,D,s) == annex_j for all 2^32 x 12 inputs"))
        hs.append(dict(DEBLOCK, name="kernel_simd", nbytes=33, timeout=1800, what="simd_impl::process_simd: all 8 lanes symbolic (2^32 x 12 inputs per lane, lanes independent), every lane == annex_j"))
        hs += _deblock_geom(tier)
        if tier == "thorough":
            for name, w, h in shapes("hooks/deblock/shapes.rs", "real"):
                hs.append(dict(DEBLOCK, name=name, nbytes=w * h + 1, timeout=1800,
                               what="deblock on %dx%d with the real kernels == Annex J geometry with annex_j" % (w, h), bound="image %dx%d" % (w, h)))
    if prop == "C16":
        hs.append(dict(DEBLOCK, name="table_j2", nbytes=0, what="QUANT_TO_STRENGTH[1..=31] == Table J.2/H.263"))
        for h in _deblock_geom(tier):
            # C16 claims acceptance of every size: any panic / overflow / bounds check and the length clause - not the filter geometry (C09)
            h = dict(h, only_checks=r"^(?!.*post_geometry)", what=h["what"].replace("every byte == Annex J geometry (kernels by contract stub)", "(geometry clause belongs to C09)"))
            hs.append(h)
    return hs


NOT_APPLICABLE = {
    "C10": "statistical accuracy procedure (60,000 pseudo-random blocks against a double-precision cosine reference, mean/MSE thresholds): no contract within reach of Verus (floats uninterpreted) or CBMC (no result on one 8-term f32 dot product in 25 min) can express or decide it; its deterministic clauses are obligations of C02 (DESIGN.md section 7)",
    "C17": "quantifies over thread schedules and run-to-run repeatability: Kani has no thread support, Verus reasons about concurrency only through its own permission types and there is no concurrent code to annotate (DESIGN.md section 7)",
}

# which unit / harness family discharges each shared contract on the real code
CONTRACT_PROVED_BY = {
    "reader.checkpoint": "Kani C14 harnesses (parser::reader::verif_hook)", "reader.rollback": "Kani C14 harnesses", "reader.commit": "Kani C14 harnesses",
    "parser.decode_picture": "Verus unit `picture`", "parser.decode_macroblock": "Verus unit `macroblock`", "parser.decode_block": "Verus unit `block`",
    "parser.decode_gob": "Verus unit `gob`", "rle.inverse_rle": "Verus unit `rle`", "mvd_pred.predict_candidate": "Verus unit `mvd_pred`",
    "mvd_pred.mv_decode": "Verus unit `mvd_pred`", "gather.gather": "Verus unit `gather`", "idct.idct_channel": "Verus unit `idct`",
}

STATE_FNS = ["h263::decoder::state::H263State::{new,is_sorenson,get_last_picture,get_reference_picture,cleanup_buffers,parse_picture,decode_next_picture}",
             "h263::decoder::picture::DecodedPicture::{new,as_header,format,as_luma,as_luma_mut,as_chroma_b,as_chroma_b_mut,as_chroma_r,as_chroma_r_mut,luma_samples_per_row,chroma_samples_per_row,as_yuv}",
             "h263::types::{SourceFormat::into_width_and_height, PictureTypeCode::{is_any_pbframe,is_disposable}, MacroblockType::{is_inter,is_intra,has_fourvec,has_quantizer}}",
             "h263::error::Error::{is_macroblock_error,is_gob_error}"]
VERUS_NOTE = "trusted: Verus/z3, rustc; extraction tool tools/rsx.py (token-exact copy + listed rewrites R0,R4,R5,R6,R7,R9); hand-written prelude contracts/verus/h263_prelude.vrs (A-CORE assume_specifications, A-BITFLAGS model of the bitflags types, A-READER opaque reader with ghost observers); contracts of callees marked STUB are assumed here and proved in their own unit (evidence.trusted_base lists every one)"

PROPS["C01"] = dict(
    level="proof", engine="verus+kani",
    verus=[dict(unit="state"), dict(unit="rle"), dict(unit="mvd_pred"), dict(unit="gather"), dict(unit="macroblock"), dict(unit="block"), dict(unit="gob")],
    functions=STATE_FNS + ["h263::decoder::cpu::rle::inverse_rle", "h263::decoder::cpu::mvd_pred::{predict_candidate,halfpel_decode,mv_decode}", "h263::decoder::cpu::gather::{read_sample,lerp,gather_block,gather}", "h263::types::{HalfPel,MotionVector} arithmetic",
                             "h263::parser::macroblock::{decode_cbpb,decode_dquant,decode_motion_vector,decode_macroblock}", "h263::parser::block::decode_block", "h263::parser::gob::decode_gob"],
    level_text="deductive proof (Verus) of the real text of decode_next_picture (350 lines, lambda-lifted), the H263State/DecodedPicture methods and the type helpers: every arithmetic operation, index, slice, division, unwrap and callee precondition on the decode path is discharged for ALL header values, picture sizes, macroblock counts, bit strings and decoder histories (representation invariant wf), and the macroblock loop carries a decreases measure (remaining bits), so it terminates; callee kernels and parsers are verified against the same shared contracts in their own units. One open known finding (D12: HalfPel overflow in UMV+PLUSPTYPE mode)",
    level_note=VERUS_NOTE + "; A-READ: the byte source is finite; A-F32-TOTAL: float arithmetic never traps",
    assumptions=["A-READER: reader operations by contract (C14 proves them on the real reader for bounded buffers)", "A-CORE, A-BITFLAGS, A-CAP (see DESIGN.md section 6)", "allocation failure excluded (property statement)"],
)
PROPS["C13"] = dict(
    level="proof", engine="verus+kani",
    verus=[dict(unit="c13"), dict(unit="state")],
    functions=["h263::decoder::picture::DecodedPicture::{new,as_*_mut,...}", "interface lemma DecodedPicture -> deblock::deblock / yuv::bt601::yuv420_to_rgba", "h263::decoder::state::H263State::decode_next_picture (post_last_some)"],
    level_text="deductive proof (Verus), unbounded in width and height: DecodedPicture::new establishes luma = w*h, chroma = ceil(w/2)*ceil(h/2), chroma row = ceil(w/2) for every u16 w,h (f32 ceil expression discharged exhaustively by Kani); the *_mut accessors hand out slices (length frame); decode_next_picture stores only pictures with pic_ok (sizes consistent, w,h >= 1) for every history; the interface lemma shows these relations imply the documented preconditions of deblock and yuv420_to_rgba for each plane and that the output has 4*w*h bytes. That the two callees then do not panic is proved per concrete size only (C08/C16 harnesses, BOUNDED: the sizes listed in the evidence)",
    level_note=VERUS_NOTE + "; callee panic-freedom is bounded in picture size (C08, C16)",
    assumptions=["callee panic-freedom bounded in size (C08/C16)", "QUANT_TO_STRENGTH range via the Table J.2 harness"],
)
PROPS["C03"] = dict(
    level="proof", engine="verus+kani",
    verus=[dict(unit="gather"), dict(unit="mvd_pred"), dict(unit="state")],
    functions=["h263::decoder::cpu::gather::{read_sample,lerp,gather_block,gather}", "h263::decoder::cpu::mvd_pred::{predict_candidate,halfpel_decode,mv_decode}", "h263::types::{HalfPel,MotionVector}::{average_sum_of_mvs,into_lerp_parameters,median_of,add}", "h263::decoder::state::H263State::decode_next_picture (call-site obligations)"],
    level_text="deductive proof (Verus), unbounded in picture size, block position and vector: gather_block's contract - every sample of the 8x8 block inside the picture == the H.263 6.1.2 bilinear half-sample prediction with coordinates clamped to the picture edge, and NO sample outside the block is written - holds for all three code paths (8-sample fast copy, clamped copy, interpolation); read_sample/lerp against their specs; gather: chroma vector == sixteenth-position rounding of the four-vector sum, all callee preconditions; mv_decode == predictor + differential wrapped into [-16,15.5] for ALL operands; decode loop: prediction uses view(old).reference, not-coded macroblocks are zero-vector INTER, intra macroblocks store zero candidates. Candidate selection and the loop-free integer kernels are additionally proved exhaustively by Kani (C12)",
    level_note=VERUS_NOTE + "; HalfPel::{median_of,invert,into_lerp_parameters} use derived comparisons Verus does not model: STUBS in Verus, discharged for every i16 input by Kani harnesses types::{median,invert_range,lerp_params}; the whole-picture composition (which block of which macroblock lands where) is proved only as call-site obligations, and the residual addition belongs to C02",
    assumptions=["derived-Ord kernels by Kani contract", "composition over macroblocks stated at call sites, not as one whole-picture postcondition"],
)
PROPS["C04"] = dict(
    level="proof", engine="verus",
    verus=[dict(unit="state"), dict(unit="macroblock")],
    functions=STATE_FNS[:1],
    level_text="deductive proof (Verus) over the abstract state (last picture, reference picture) of the real H263State methods: new / getters / cleanup_buffers / decode_next_picture each carry a postcondition over the WHOLE view, for every decoder state satisfying the representation invariant - hence for every history of accepted pictures, rejected pictures and clean-ups, every temporal reference value (incl. equal to the reference's and wrapped) - unbounded",
    level_note=VERUS_NOTE + "; HashMap modelled by vstd's map axioms for u16 keys; HashMap::remove_entry by assume_specification",
    assumptions=["parser contracts assumed (the disposable picture type code and macroblock syntax selection are obligations of the picture / macroblock units)"],
)
PROPS["C05"] = dict(
    level="proof", engine="verus",
    verus=[dict(unit="state")],
    functions=STATE_FNS[:1] + ["h263::parser::reader::H263Reader::with_transaction (text instantiated by R5)"],
    level_text="deductive proof (Verus): `Err ==> *final(self) == *old(self)` for the lifted body of decode_next_picture (all fields incl. the picture map) on every path, and `Err ==> reader position == position before the call` for the transaction wrapper (the text of with_transaction instantiated with the body), for all inputs and histories; the reader-side clauses (rollback restores the position, buffered bytes are retained, append behaves like all-at-once) are Kani obligations of C14",
    level_note=VERUS_NOTE + "; determinism of a &mut self method without interior mutability or statics is the premise of the retry clause (mechanical scan)",
    assumptions=["reader checkpoint/rollback/commit by contract (A-READER)", "retry/append clause relies on the reader contract for a growing source (C14 harness two_phase)"],
)
PROPS["C15"] = dict(
    level="proof", engine="verus+kani",
    verus=[dict(unit="state"), dict(unit="macroblock"), dict(unit="block"), dict(unit="gob")],
    functions=["h263::decoder::state::H263State::decode_next_picture (loop exit contract, commit)", "h263::parser::macroblock::decode_macroblock", "h263::parser::block::decode_block", "h263::parser::gob::decode_gob"],
    level_text="deductive proof (Verus) with ghost bit accounting over the abstract reader (absolute position rpos): whatever ends the macroblock loop - picture complete, end of data, a start code in Sorenson or standard mode - is NOT consumed (loop `ensures rpos == position at the start of the last iteration`); decode_macroblock / decode_block / decode_gob consume nothing on Err and on Ok(None) (their transaction wrappers are the text of with_transaction*), commit keeps the position; hence after Ok the reader stands at the end of this picture's macroblock data, for every picture, size and history. The start-code search window (< 8 stuffing bits) is the reader contract recognize_start_code (C14)",
    level_note=VERUS_NOTE + "; the concatenation statement over N pictures follows by induction over calls from this per-call contract and C04/C05 (not mechanised as a separate lemma)",
    assumptions=["reader operations by contract (A-READER, C14)", "induction over the picture sequence stated, not mechanised"],
)
PROPS["C06"] = dict(
    level="proof", engine="verus+kani",
    verus=[dict(unit="picture"), dict(unit="state"), dict(unit="gob")],
    functions=["h263::parser::picture::{decode_ptype,decode_plusptype,decode_sorenson_ptype,decode_cpm_and_psbi,decode_cpfmt,decode_cpcfc,decode_uui,decode_sss,decode_elnum_rlnum,decode_rpsmf,decode_trpi,decode_bcm,decode_rprp,decode_trb,decode_dbquant,decode_pei,decode_picture}",
               "h263::parser::gob::decode_gob", "h263::decoder::state::H263State::decode_next_picture (header stored, format fallback)"],
    level_text="deductive proof (Verus) of the real text of parser/picture.rs against spec functions written in the vocabulary of H.263 5.1 (numbered bits of PTYPE / OPPTYPE / MPPTYPE / CPFMT / ...): each of the 16 field parsers returns exactly the encoded value for ALL field values and consumes exactly the field's bits, rejects wrong markers, inherits OPPTYPE modes when UFEP = 000, PEI loops over any number of bytes (with termination); decode_picture: the complete Sorenson Spark header relation (all size codes incl. 8/16-bit custom sizes, type, deblocking flag, quantizer, extra bytes, exact length) and, in standard mode, panic-freedom, reader frame and field bounds. NOT proved in Verus (solver resource limit, see DESIGN.md): that decode_picture stores each standard-mode field parser's result in the right header field in the right order - this assembly step is exercised only by the native sibling harness hdr_std_dyn (spec encoder round trip), which is exploration, not proof",
    level_note=VERUS_NOTE + "; derived PartialEq on SourceFormat assumed structural (A-DERIVE-EQ); the recognize_start_code contract (nearest start code within 8 bits) is a C14 obligation",
    assumptions=["standard-mode header assembly in decode_picture not proved (resource limit) - native witness harness only", "reader by contract (A-READER)", "A-BITFLAGS models cross-checked by Kani"],
)
PROPS["C07"] = dict(
    level="proof",
    engine="kani+verus",
    verus=[dict(unit="bt601_lemmas")],
    functions=["yuv::bt601::yuv_to_rgba_4x"],
    level_text="complete proof: the function contract of yuv_to_rgba_4x (every lane == the 16.16 fixed-point BT.601 oracle, alpha 255) is discharged by CBMC on the real SIMD code with all 8 input bytes symbolic, i.e. all 2^24 triples on each of the 4 lanes; the derived clauses (within 1 of the real-valued formula, monotonicity) are Verus lemmas over the oracle formula for all inputs (linear integer arithmetic)",
    level_note="trusted: Kani/CBMC, Verus/z3, rustc; A-SIMD lane-wise models of _mm_sra_epi32/_mm_sll_epi32 (counterexamples are replayed on the real intrinsics); the oracle spec/bt601.rs is derived from the BT.601 constants; the Verus spec functions are a transcription of that oracle (cross-checked by the thorough-tier Kani lemmas on the Rust oracle)",
    assumptions=["A-SIMD: hooks/simd_stubs.rs models of _mm_sra_epi32 and _mm_sll_epi32", "Verus spec fns spec_r/g/b transcribe spec/bt601.rs (thorough tier re-proves R, B and monotonicity on the Rust oracle with CBMC)"],
)
PROPS["C08"] = dict(
    level="proof",
    engine="kani",
    functions=["yuv::bt601::yuv420_to_rgba"],
    level_text="BOUNDED proof: the contract of yuv420_to_rgba (length 4*w*h; pixel (x,y) == F(Y[x,y],Cb[x/2,y/2],Cr[x/2,y/2]) for every pixel; empty in => empty out; no panic) is discharged by CBMC per concrete (w,h) with all plane contents symbolic, against the pixel kernel's contract in tagging form. quick: 8 sizes covering every residue of w mod 4 and h mod 2; thorough: every (w,h) in 1..=18 x 1..=6. Sizes beyond are not proved",
    level_note="trusted: Kani/CBMC; A-PARAM the 4-pixel kernel is replaced by its contract stub F(y,cb,cr)=[y,cb,cr,255] (C07 proves the kernel itself); bytemuck::cast_slice (safe API of a dependency) is compiled as is",
    assumptions=["A-PARAM: pixel kernel abstracted by its contract (tagging form)", "bounded in picture size"],
)
PROPS["C11"] = dict(
    level="proof",
    engine="kani+verus",
    verus=[dict(unit="state"), dict(unit="block"), dict(unit="macroblock"), dict(unit="rle")],
    functions=["h263::decoder::cpu::rle::inverse_rle", "h263::types::IntraDc::{from_u8,into_level}", "h263::decoder::state::H263State::decode_next_picture (quantizer update)"],
    level_text="complete proofs over the finite domains: inverse_rle's single-event contract is discharged by CBMC for every quantizer 1..=31 x level -1023..=1023 x run 0..=63 with and without INTRADC (one symbolic query each), the INTRADC map for all 256 codes, the zig-zag table against Figure 14; the quantizer clamp after DQUANT is an assertion in the Verus proof of the real decode loop (all histories); escape widths are part of the block parser contract",
    level_note="trusted: Kani/CBMC, Verus/z3; spec/h263_tables.rs typed from H.263 6.2 / Table 15 / Figure 14; the decode-loop proof assumes the parser contracts (shared_contracts.vrs) proved in the parser units",
    assumptions=["oracle tables typed from the Recommendation", "parser contracts assumed by the state unit (see evidence.trusted_base)"],
)
PROPS["C12"] = dict(
    level="proof",
    engine="kani+verus",
    verus=[dict(unit="mvd_pred")],
    functions=["h263::types::HalfPel::{into_lerp_parameters,invert,is_mv_within_range,average_sum_of_mvs,median_of,add}", "h263::decoder::cpu::mvd_pred::{halfpel_decode,mv_decode,predict_candidate}", "h263::parser::macroblock::MVD_TABLE"],
    level_text="complete proofs over finite domains (all i16 / all 64x64 pairs / all i16 triples / all 64 code words) for the loop-free vector kernels and the MVD table; candidate selection is proved per concrete neighbour configuration (1..=4 macroblocks per line, rows 0..2, every column incl. first/last, block index 0..3) with all stored vectors symbolic - BOUNDED in grid width (<= 4 columns), which covers all 3x3 neighbour-availability classes and single-column pictures",
    level_note="trusted: Kani/CBMC; oracles in spec/h263_tables.rs typed from H.263 6.1.1, Table 14, Table 16; candidate selection beyond 4 columns not proved (the function only looks at col == 0, col == last, row == 0)",
    assumptions=["oracle tables typed from the Recommendation", "predict_candidate proved on grids up to 4 columns x 3 rows"],
)
PROPS["C09"] = dict(
    level="proof",
    engine="kani",
    level_text="kernels: complete deductive proof (function contract `result == annex_j(A,B,C,D,strength)` discharged by CBMC over all 2^32 x 12 inputs for the scalar kernel and over 8 independent symbolic lanes for the SIMD kernel); geometry: the contract `deblock(data,w,s) == vertical_pass(horizontal_pass(data))` discharged per concrete image size with arbitrary contents and strength - BOUNDED in size (quick 9 sizes, thorough 181 sizes incl. every (w,h) in 1..=12 x 0..=12), unbounded in content",
    level_note="trusted: Kani/CBMC/CaDiCaL, rustc; A-SIMD lane-wise models of 3 x86 intrinsics (counterexamples replayed on the real intrinsics); A-PARAM geometry harnesses use the kernels' contract in surrogate form (thorough tier repeats 6 sizes with the real kernels); the Annex J oracle in spec/annex_j.rs is typed from the Recommendation",
    functions=["deblock::scalar_impl::process", "deblock::simd_impl::process_simd", "deblock::deblock (deblock_horiz, deblock_vert)"],
    assumptions=["A-SIMD: lane-wise models of _mm_sra_epi16/_mm_max_epi16/_mm_min_epi16 (hooks/simd_stubs.rs); counterexamples replayed on the real intrinsics",
                 "A-PARAM: geometry harnesses abstract the edge kernels by their contract (surrogate kernel); thorough tier repeats 6 sizes with the real kernels",
                 "geometry is proved per concrete image size (bounded in size, unbounded in content)"],
    explanation="kernels: complete proofs over 2^32 x 12 inputs; geometry: bounded in image size",
)
PROPS["C16"] = dict(
    level="proof",
    engine="kani",
    level_text="Table J.2: exhaustive proof over the 31 entries against the table typed from the Recommendation; size acceptance: contract `deblock(data,w,s)` terminates without panic and preserves the length, discharged per concrete (w,h) with arbitrary contents and strength 1..=12 - BOUNDED in size (quick: 9 sizes incl. h in {0,1} and w<10; thorough: every (w,h) in 1..=12 x 0..=12 and 15..=19 squared), unbounded in content",
    level_note="trusted: Kani/CBMC; kernels replaced by their contract stubs in the size sweep (their own panic-freedom is part of C09's kernel proofs); sizes beyond the sweep are not proved",
    functions=["deblock::deblock (deblock_horiz, deblock_vert)", "deblock::QUANT_TO_STRENGTH"],
    assumptions=["no-panic is proved per concrete image size (bounded in size, unbounded in content and strength)",
                 "A-PARAM: kernels replaced by contract stubs in the size sweep (their own no-panic is C09's kernel proof)"],
    explanation="table: exhaustive; size acceptance: bounded size sweep",
)
