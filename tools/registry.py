# Which obligations serve which property, per tier.
import os, re
import vlib

PROPS = {}


def shapes(path, kind):
    out = []
    for line in open(os.path.join(vlib.VERIF, path)):
        m = re.match(r"(\w+)!\((\w+), (\d+), (\d+), (\d+)\);", line.strip())
        if m and m.group(1) == kind:
            out.append((m.group(2), int(m.group(3)), int(m.group(4))))
    return out


DEBLOCK = dict(crate="deblock", prefix="deblock::verif_hook::proofs", replay_mod="deblock::verif_hook::replay")
# quick: h<2, w<10, horizontal-pass SIMD chunk + scalar remainder, vertical-pass SIMD rows + scalar remainder rows, two edges in each direction
DEBLOCK_QUICK_SIZES = {(1, 0), (1, 1), (3, 1), (9, 2), (8, 10), (10, 9), (11, 10), (18, 10), (10, 18)}


def _deblock_geom(tier):
    hs = []
    for name, w, h in shapes("hooks/deblock/shapes.rs", "geom"):
        if tier == "quick" and (w, h) not in DEBLOCK_QUICK_SIZES:
            continue
        hs.append(dict(DEBLOCK, name=name, nbytes=w * h + 1, timeout=900,
                       what="deblock(data,%d,s) on an arbitrary %dx%d image, s in 1..=12: no panic, len preserved, every byte == Annex J geometry (kernels by contract stub)" % (w, w, h),
                       bound="image %dx%d (contents and strength symbolic)" % (w, h)))
    return hs


def kani_harnesses(prop, tier):
    hs = []
    if prop == "C09":
        hs.append(dict(DEBLOCK, name="kernel_scalar", nbytes=5, what="scalar_impl::process(A,B,C,D,s) == annex_j for all 2^32 x 12 inputs"))
        if tier == "thorough":
            hs.append(dict(DEBLOCK, name="kernel_simd", nbytes=33, timeout=1800, what="simd_impl::process_simd: all 8 lanes symbolic, every lane == annex_j"))
        else:
            for l in range(8):
                hs.append(dict(DEBLOCK, name="kernel_simd_lane%d" % l, nbytes=33, timeout=900,
                               what="simd_impl::process_simd: all 8 lanes symbolic, lane %d == annex_j for all 2^32 x 12 inputs of that lane" % l))
        hs += _deblock_geom(tier)
        if tier == "thorough":
            for name, w, h in shapes("hooks/deblock/shapes.rs", "real"):
                hs.append(dict(DEBLOCK, name=name, nbytes=w * h + 1, timeout=1800,
                               what="deblock on %dx%d with the real kernels == Annex J geometry with annex_j" % (w, h), bound="image %dx%d" % (w, h)))
    if prop == "C16":
        hs.append(dict(DEBLOCK, name="table_j2", nbytes=0, what="QUANT_TO_STRENGTH[1..=31] == Table J.2/H.263"))
        hs += _deblock_geom(tier)
    return hs


NOT_APPLICABLE = {
    "C10": "statistical accuracy procedure (60,000 pseudo-random blocks against a double-precision cosine reference, mean/MSE thresholds): no contract within reach of Verus (floats uninterpreted) or CBMC (no result on one 8-term f32 dot product in 25 min) can express or decide it; its deterministic clauses are obligations of C02 (DESIGN.md section 7)",
    "C17": "quantifies over thread schedules and run-to-run repeatability: Kani has no thread support, Verus reasons about concurrency only through its own permission types and there is no concurrent code to annotate (DESIGN.md section 7)",
}

PROPS["C09"] = dict(
    level="proof",
    engine="kani",
    level_text="kernels: complete deductive proof (function contract `result == annex_j(A,B,C,D,strength)` discharged by CBMC over all 2^32 x 12 inputs for the scalar kernel and over 8 independent symbolic lanes for the SIMD kernel); geometry: the contract `deblock(data,w,s) == vertical_pass(horizontal_pass(data))` discharged per concrete image size with arbitrary contents and strength - BOUNDED in size (quick 9 sizes, thorough 181 sizes incl. every (w,h) in 1..=12 x 0..=12), unbounded in content",
    level_note="trusted: Kani/CBMC/CaDiCaL, rustc; A-SIMD lane-wise models of 3 x86 intrinsics (counterexamples replayed on the real intrinsics); A-PARAM geometry harnesses use the kernels' contract in surrogate form (thorough tier repeats 6 sizes with the real kernels); the Annex J oracle in spec/annex_j.rs is typed from the Recommendation",
    functions=["deblock::scalar_impl::process", "deblock::simd_impl::process_simd", "deblock::deblock (deblock_horiz, deblock_vert)"],
    assumptions=["A-SIMD: lane-wise models of _mm_sra_epi16/_mm_max_epi16/_mm_min_epi16 (hooks/simd_stubs.rs); counterexamples replayed on the real intrinsics",
                 "A-PARAM: geometry harnesses abstract the edge kernels by their contract (surrogate kernel); thorough tier repeats 6 sizes with the real kernels",
                 "geometry is proved per concrete image size (bounded in size, unbounded in content)"],
    explanation="kernels: complete proofs over 2^32 x 12 inputs; geometry: bounded in image size",
)
PROPS["C16"] = dict(
    level="proof",
    engine="kani",
    level_text="Table J.2: exhaustive proof over the 31 entries against the table typed from the Recommendation; size acceptance: contract `deblock(data,w,s)` terminates without panic and preserves the length, discharged per concrete (w,h) with arbitrary contents and strength 1..=12 - BOUNDED in size (quick: 9 sizes incl. h in {0,1} and w<10; thorough: every (w,h) in 1..=12 x 0..=12 and 15..=19 squared), unbounded in content",
    level_note="trusted: Kani/CBMC; kernels replaced by their contract stubs in the size sweep (their own panic-freedom is part of C09's kernel proofs); sizes beyond the sweep are not proved",
    functions=["deblock::deblock (deblock_horiz, deblock_vert)", "deblock::QUANT_TO_STRENGTH"],
    assumptions=["no-panic is proved per concrete image size (bounded in size, unbounded in content and strength)",
                 "A-PARAM: kernels replaced by contract stubs in the size sweep (their own no-panic is C09's kernel proof)"],
    explanation="table: exhaustive; size acceptance: bounded size sweep",
)
