# Which obligations serve which property, per tier.
import os, re
import vlib

PROPS = {}


def shapes(path, kind):
    out = []
    for line in open(os.path.join(vlib.VERIF, path)):
        m = re.match(r"(\w+)!\((\w+), (\d+), (\d+), (\d+)\);", line.strip())
        if m and m.group(1) == kind:
            out.append((m.group(2), int(m.group(3)), int(m.group(4))))
    return out


DEBLOCK = dict(crate="deblock", prefix="deblock::verif_hook::proofs", replay_mod="deblock::verif_hook::replay")
# quick: h<2, w<10, horizontal-pass SIMD chunk + scalar remainder, vertical-pass SIMD rows + scalar remainder rows, two edges in each direction
DEBLOCK_QUICK_SIZES = {(1, 0), (1, 1), (3, 1), (9, 2), (8, 10), (10, 9), (11, 10), (18, 10), (10, 18)}


def _deblock_geom(tier):
    hs = []
    for name, w, h in shapes("hooks/deblock/shapes.rs", "geom"):
        if tier == "quick" and (w, h) not in DEBLOCK_QUICK_SIZES:
            continue
        hs.append(dict(DEBLOCK, name=name, nbytes=w * h + 1, timeout=900,
                       what="deblock(data,%d,s) on an arbitrary %dx%d image, s in 1..=12: no panic, len preserved, every byte == Annex J geometry (kernels by contract stub)" % (w, w, h),
                       bound="image %dx%d (contents and strength symbolic)" % (w, h)))
    return hs


YUV = dict(crate="yuv", prefix="bt601::verif_hook::proofs", replay_mod="bt601::verif_hook::replay")
YUV_QUICK_SIZES = {(1, 1), (2, 1), (3, 2), (4, 2), (5, 3), (7, 3), (9, 2), (6, 1)}

VERUS_WITNESS = {}


def kani_harnesses(prop, tier):
    hs = []
    if prop == "C07":
        hs.append(dict(YUV, name="px4", nbytes=8, timeout=1200, what="yuv_to_rgba_4x: all 8 input bytes symbolic; lane i == bt601_spec::px(y[i], cb[i/2], cr[i/2]) ++ [255] (whole 2^24 domain on each lane)"))
        hs.append(dict(YUV, name="coeff", nbytes=0, what="the five 16.16 coefficients == round(65536*c) of the BT.601 rationals"))
        if tier == "thorough":
            hs.append(dict(YUV, name="within1_r", nbytes=3, what="oracle lemma on the Rust oracle: |R_fixed - clamp(real)| <= 1"))
            hs.append(dict(YUV, name="within1_b", nbytes=3, what="oracle lemma on the Rust oracle: |B_fixed - clamp(real)| <= 1"))
            hs.append(dict(YUV, name="monotone", nbytes=3, timeout=1200, what="oracle lemma on the Rust oracle: monotone in Y, Cb, Cr"))
    if prop == "C08":
        hs.append(dict(YUV, name="empty", nbytes=0, what="yuv420_to_rgba(&[],&[],&[],0) returns an empty vector without panic"))
        for name, w, h in shapes("hooks/yuv/shapes.rs", "geom"):
            if tier == "quick" and (w, h) not in YUV_QUICK_SIZES:
                continue
            cn = ((w + 1) // 2) * ((h + 1) // 2)
            hs.append(dict(YUV, name=name, nbytes=w * h + 2 * cn, timeout=900,
                           what="yuv420_to_rgba on an arbitrary %dx%d picture: 4*w*h bytes, pixel (x,y) == F(Y[x,y], Cb[x/2,y/2], Cr[x/2,y/2]) for every pixel (kernel by contract stub, tagging form)" % (w, h),
                           bound="picture %dx%d (plane contents symbolic)" % (w, h)))
    if prop == "C09":
        hs.append(dict(DEBLOCK, name="kernel_scalar", nbytes=5, what="scalar_impl::process(A,B,C,D,s) == annex_j for all 2^32 x 12 inputs"))
        hs.append(dict(DEBLOCK, name="kernel_simd", nbytes=33, timeout=1800, what="simd_impl::process_simd: all 8 lanes symbolic (2^32 x 12 inputs per lane, lanes independent), every lane == annex_j"))
        hs += _deblock_geom(tier)
        if tier == "thorough":
            for name, w, h in shapes("hooks/deblock/shapes.rs", "real"):
                hs.append(dict(DEBLOCK, name=name, nbytes=w * h + 1, timeout=1800,
                               what="deblock on %dx%d with the real kernels == Annex J geometry with annex_j" % (w, h), bound="image %dx%d" % (w, h)))
    if prop == "C16":
        hs.append(dict(DEBLOCK, name="table_j2", nbytes=0, what="QUANT_TO_STRENGTH[1..=31] == Table J.2/H.263"))
        hs += _deblock_geom(tier)
    return hs


NOT_APPLICABLE = {
    "C10": "statistical accuracy procedure (60,000 pseudo-random blocks against a double-precision cosine reference, mean/MSE thresholds): no contract within reach of Verus (floats uninterpreted) or CBMC (no result on one 8-term f32 dot product in 25 min) can express or decide it; its deterministic clauses are obligations of C02 (DESIGN.md section 7)",
    "C17": "quantifies over thread schedules and run-to-run repeatability: Kani has no thread support, Verus reasons about concurrency only through its own permission types and there is no concurrent code to annotate (DESIGN.md section 7)",
}

PROPS["C07"] = dict(
    level="proof",
    engine="kani+verus",
    verus=[dict(unit="bt601_lemmas")],
    functions=["yuv::bt601::yuv_to_rgba_4x"],
    level_text="complete proof: the function contract of yuv_to_rgba_4x (every lane == the 16.16 fixed-point BT.601 oracle, alpha 255) is discharged by CBMC on the real SIMD code with all 8 input bytes symbolic, i.e. all 2^24 triples on each of the 4 lanes; the derived clauses (within 1 of the real-valued formula, monotonicity) are Verus lemmas over the oracle formula for all inputs (linear integer arithmetic)",
    level_note="trusted: Kani/CBMC, Verus/z3, rustc; A-SIMD lane-wise models of _mm_sra_epi32/_mm_sll_epi32 (counterexamples are replayed on the real intrinsics); the oracle spec/bt601.rs is derived from the BT.601 constants; the Verus spec functions are a transcription of that oracle (cross-checked by the thorough-tier Kani lemmas on the Rust oracle)",
    assumptions=["A-SIMD: hooks/simd_stubs.rs models of _mm_sra_epi32 and _mm_sll_epi32", "Verus spec fns spec_r/g/b transcribe spec/bt601.rs (thorough tier re-proves R, B and monotonicity on the Rust oracle with CBMC)"],
)
PROPS["C08"] = dict(
    level="proof",
    engine="kani",
    functions=["yuv::bt601::yuv420_to_rgba"],
    level_text="BOUNDED proof: the contract of yuv420_to_rgba (length 4*w*h; pixel (x,y) == F(Y[x,y],Cb[x/2,y/2],Cr[x/2,y/2]) for every pixel; empty in => empty out; no panic) is discharged by CBMC per concrete (w,h) with all plane contents symbolic, against the pixel kernel's contract in tagging form. quick: 8 sizes covering every residue of w mod 4 and h mod 2; thorough: every (w,h) in 1..=18 x 1..=6. Sizes beyond are not proved",
    level_note="trusted: Kani/CBMC; A-PARAM the 4-pixel kernel is replaced by its contract stub F(y,cb,cr)=[y,cb,cr,255] (C07 proves the kernel itself); bytemuck::cast_slice (safe API of a dependency) is compiled as is",
    assumptions=["A-PARAM: pixel kernel abstracted by its contract (tagging form)", "bounded in picture size"],
)
PROPS["C09"] = dict(
    level="proof",
    engine="kani",
    level_text="kernels: complete deductive proof (function contract `result == annex_j(A,B,C,D,strength)` discharged by CBMC over all 2^32 x 12 inputs for the scalar kernel and over 8 independent symbolic lanes for the SIMD kernel); geometry: the contract `deblock(data,w,s) == vertical_pass(horizontal_pass(data))` discharged per concrete image size with arbitrary contents and strength - BOUNDED in size (quick 9 sizes, thorough 181 sizes incl. every (w,h) in 1..=12 x 0..=12), unbounded in content",
    level_note="trusted: Kani/CBMC/CaDiCaL, rustc; A-SIMD lane-wise models of 3 x86 intrinsics (counterexamples replayed on the real intrinsics); A-PARAM geometry harnesses use the kernels' contract in surrogate form (thorough tier repeats 6 sizes with the real kernels); the Annex J oracle in spec/annex_j.rs is typed from the Recommendation",
    functions=["deblock::scalar_impl::process", "deblock::simd_impl::process_simd", "deblock::deblock (deblock_horiz, deblock_vert)"],
    assumptions=["A-SIMD: lane-wise models of _mm_sra_epi16/_mm_max_epi16/_mm_min_epi16 (hooks/simd_stubs.rs); counterexamples replayed on the real intrinsics",
                 "A-PARAM: geometry harnesses abstract the edge kernels by their contract (surrogate kernel); thorough tier repeats 6 sizes with the real kernels",
                 "geometry is proved per concrete image size (bounded in size, unbounded in content)"],
    explanation="kernels: complete proofs over 2^32 x 12 inputs; geometry: bounded in image size",
)
PROPS["C16"] = dict(
    level="proof",
    engine="kani",
    level_text="Table J.2: exhaustive proof over the 31 entries against the table typed from the Recommendation; size acceptance: contract `deblock(data,w,s)` terminates without panic and preserves the length, discharged per concrete (w,h) with arbitrary contents and strength 1..=12 - BOUNDED in size (quick: 9 sizes incl. h in {0,1} and w<10; thorough: every (w,h) in 1..=12 x 0..=12 and 15..=19 squared), unbounded in content",
    level_note="trusted: Kani/CBMC; kernels replaced by their contract stubs in the size sweep (their own panic-freedom is part of C09's kernel proofs); sizes beyond the sweep are not proved",
    functions=["deblock::deblock (deblock_horiz, deblock_vert)", "deblock::QUANT_TO_STRENGTH"],
    assumptions=["no-panic is proved per concrete image size (bounded in size, unbounded in content and strength)",
                 "A-PARAM: kernels replaced by contract stubs in the size sweep (their own no-panic is C09's kernel proof)"],
    explanation="table: exhaustive; size acceptance: bounded size sweep",
)
