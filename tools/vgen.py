#!/usr/bin/env python3
# vgen.py <unit> [extra verus args]: build a Verus unit from /repo's working tree into the work dir and run verus on it (debugging aid)
import sys, os, subprocess
sys.path.insert(0, os.path.dirname(__file__))
import vlib, verus_units
u = verus_units.build_unit(sys.argv[1])
d = os.path.join(vlib.WORK, "verus-dbg"); os.makedirs(d, exist_ok=True)
p = os.path.join(d, sys.argv[1] + ".rs")
open(p, "w").write("\n".join(l for l, _ in u.lines) + "\n")
for n in u.notes: print("note:", n)
for k, v in u.drift_hard.items(): print("DRIFT-HARD", k, v)
print(p)
sys.exit(subprocess.run(["verus", p, "--multiple-errors", "20", "--rlimit", "60"] + u.verus_args + sys.argv[2:], cwd=d).returncode)
