# Verus units: overlay parsing, extraction from /repo's working tree, weaving, running `verus`, mapping every
# diagnostic back to (function, clause tag) and hence to properties.
import json, os, re, time
import vlib, rsx

OVERLAY_DIR = os.path.join(vlib.VERIF, "contracts", "verus")
TAG = re.compile(r"\[((?:C\d\d(?:,\s*)?)+):([^\]]+)\]")

VERIF_FAIL = re.compile(
    r"postcondition not satisfied|precondition not satisfied|assertion failed|possible arithmetic underflow/overflow|possible division by zero|"
    r"invariant not satisfied|decreases not satisfied|possible bit shift underflow/overflow|could not prove termination|"
    r"unable to prove assertion|constructed value may fail to meet its declared type invariant|cannot show invariant holds|"
    r"loop invariant|not satisfied|failed")
RLIMIT = re.compile(r"[Rr]esource limit|rlimit|timed out|time limit", re.I)


class Unit:
    def __init__(self, name):
        self.name = name
        self.lines = []  # (text, origin)
        self.drift_hard = {}  # fn name -> proof hints of the overlay that could not be placed (the code changed shape)
        self.notes = []  # extraction notes
        self.items = []  # (path, sha)
        self.default_props = []
        self.safety_prop = None
        self.proves = []
        self.assumes = []
        self.verus_args = []
        self.refine = []  # (function, args): re-verified alone with other solver options; its verdict replaces the main pass's


def parse_bt(s):
    """`a` => `b` with optional leading count"""
    m = re.match(r"\s*(\d+)?\s*`(.*?)`\s*=>\s*`(.*?)`\s*$", s)
    if not m:
        raise rsx.RsxError("bad subst directive: " + s)
    return (m.group(2).replace("\\n", "\n"), m.group(3).replace("\\n", "\n"), int(m.group(1) or 1))


def load_shared():
    """contract texts shared between the unit that proves a function and the units that assume it"""
    defs = {}
    p = os.path.join(OVERLAY_DIR, "shared_contracts.vrs")
    if not os.path.exists(p):
        return defs
    cur, buf, line0 = None, [], 0
    for n, l in enumerate(open(p).read().split("\n"), 1):
        m = re.match(r"\s*//@define\s+(\S+)", l)
        if m:
            cur, buf, line0 = m.group(1), [], n + 1
            continue
        if re.match(r"\s*//@enddef", l):
            defs[cur] = ("\n".join(buf) + "\n", line0)
            cur = None
            continue
        if cur is not None:
            buf.append(l)
    return defs


def build_unit(name):
    """returns Unit with generated text; raises rsx.RsxError (=> undecided)"""
    shared = load_shared()
    opath = os.path.join(OVERLAY_DIR, name + ".vrs")
    raw = open(opath).read().split("\n")
    u = Unit(name)
    srcs = {}

    def get_src(rel):
        if rel not in srcs:
            p = os.path.join(vlib.REPO, rel) if not rel.startswith("/") else rel
            srcs[rel] = rsx.Src(open(p).read(), rel)
        return srcs[rel]

    def emit_text(text, origin):
        # origin: (kind, file, first_line)
        ls = text.split("\n")
        if ls and ls[-1] == "":
            ls = ls[:-1]
        for k, l in enumerate(ls):
            u.lines.append((l, (origin[0], origin[1], origin[2] + k if origin[2] else 0)))

    def emit_woven(w, path, rel):
        for p in w.pieces:
            # pieces may not end at line boundaries: glue
            if u.lines and getattr(u, "_open", False):
                last, lo = u.lines.pop()
                first_nl = p.text.find("\n")
                if first_nl < 0:
                    u.lines.append((last + p.text, lo))
                    continue
                u.lines.append((last + p.text[:first_nl], lo))
                rest = p.text[first_nl + 1:]
                u._open = False
                origin = (p.origin[0], p.origin[1], p.origin[2] + 1 if p.origin[2] else 0)
                if rest:
                    _emit_piece(rest, origin)
                continue
            _emit_piece(p.text, p.origin)
        if getattr(u, "_open", False):
            u._open = False
        u.items.append(("%s :: %s" % (rel, " / ".join(path)), vlib.sha(w.hash_src)))
        for n in w.notes:
            u.notes.append("%s :: %s: %s" % (rel, path[-1], n))
        for n in getattr(w, "drift_soft", []):
            u.notes.append("%s :: %s: DRIFT (workaround not needed / not applicable any more, text verified as it stands): %s" % (rel, path[-1], n))
        if getattr(w, "drift_hard", []):
            u.drift_hard.setdefault(path[-1], []).extend(w.drift_hard)

    def _emit_piece(text, origin):
        ls = text.split("\n")
        u._open = not text.endswith("\n")
        if text.endswith("\n"):
            ls = ls[:-1]
        for k, l in enumerate(ls):
            u.lines.append((l, (origin[0], origin[1], origin[2] + k if origin[2] else 0)))

    i = 0
    wrap = None
    while i < len(raw):
        line = raw[i]
        m = re.match(r"\s*//@(\w+)\s*(.*)$", line)
        if not m:
            u.lines.append((line, ("overlay", name + ".vrs", i + 1)))
            i += 1
            continue
        d, arg = m.group(1), m.group(2).strip()
        if d == "include":
            inc = open(os.path.join(OVERLAY_DIR, arg)).read().split("\n")
            raw[i:i + 1] = inc
            continue
        if d == "auto_consts":
            # constants declared in the file (module level) or in its inherent impl block (one indentation level): extracted verbatim so that a
            # function that starts using a new constant is still verified as it stands (at the pinned commit reader.rs declares none)
            rel, wrap_txt = [x.strip() for x in arg.split("::", 1)]
            ftxt = open(os.path.join(vlib.REPO, rel)).read().split("#[cfg(test)]")[0]
            mods = re.findall(r"^(?:pub(?:\([^)]*\))?\s+)?(const\s+\w+\s*:[^;]+;)", ftxt, re.M)
            impls = re.findall(r"^    (?:pub(?:\([^)]*\))?\s+)?(const\s+\w+\s*:[^;]+;)", ftxt, re.M)
            for c in mods:
                u.lines.append((c, ("repo", rel, 0)))
            if impls:
                u.lines.append((wrap_txt + " {", ("gen", "wrap", 0)))
                for c in impls:
                    u.lines.append(("    " + c, ("repo", rel, 0)))
                u.lines.append(("}", ("gen", "wrap", 0)))
            if mods or impls:
                u.notes.append("%s: constants extracted verbatim: %s" % (rel, ", ".join(re.findall(r"const\s+(\w+)", " ".join(mods + impls)))))
            i += 1
            continue
        if d == "verus_refine":
            parts = arg.split()
            u.refine.append((parts[0], parts[1:]))
            i += 1
            continue
        if d == "verus_args":
            u.verus_args += arg.split()
            i += 1
            continue
        if d == "props":
            u.default_props = arg.split()
            i += 1
        elif d == "safety":
            u.safety_prop = arg
            i += 1
        elif d == "wrap":
            wrap = arg
            i += 1
        elif d in ("fn", "item"):
            rel, pth = [x.strip() for x in arg.split("::", 1)]
            path = [x.strip() for x in pth.split("/")]
            spec = {"overlay_file": name + ".vrs", "loops": {}, "before": [], "after": [], "rules": [], "subst": [], "sig_subst": []}
            i += 1
            cur = None
            buf = []
            cur_line = 0

            def flush():
                nonlocal cur, buf
                if cur is None:
                    return
                text = "\n".join(buf) + "\n"
                if cur[0] == "contract":
                    spec["contract"] = (text, cur_line)
                elif cur[0] == "body_contract":
                    spec["body_contract"] = (text, cur_line)
                elif cur[0] == "contract_extra":
                    base = spec.get("contract", ("", cur_line))
                    spec["contract"] = (base[0] + text, base[1])
                elif cur[0] == "loop":
                    spec["loops"][cur[1]] = (text, cur_line)
                elif cur[0] in ("before", "after"):
                    spec[cur[0]].append((cur[1], text, cur[2], cur_line))
                cur, buf = None, []

            while i < len(raw):
                l2 = raw[i]
                m2 = re.match(r"\s*//@(\w+)\s*(.*)$", l2)
                if not m2:
                    buf.append(l2)
                    i += 1
                    continue
                d2, a2 = m2.group(1), m2.group(2).strip()
                if d2 == "end":
                    flush()
                    i += 1
                    break
                flush()
                if d2 == "ret":
                    spec["ret"] = a2
                elif d2 == "rules":
                    spec["rules"] = a2.split()
                elif d2 == "rename":
                    spec["rename"] = a2
                elif d2 == "external_body":
                    spec["external_body"] = True
                elif d2 == "keep_pub":
                    spec["keep_pub"] = True
                elif d2 == "subst":
                    spec["subst"].append(parse_bt(a2))
                elif d2 == "sig_subst":
                    spec["sig_subst"].append(parse_bt(a2))
                elif d2 == "loop_count":
                    spec["loop_count"] = int(a2)
                elif d2 == "contract_ref":
                    if a2 not in shared:
                        raise rsx.RsxError("%s.vrs:%d unknown shared contract %s" % (name, i + 1, a2))
                    spec["contract"] = shared[a2]
                    spec["contract_file"] = "shared_contracts.vrs"
                    spec["contract_name"] = a2
                elif d2 == "mono":
                    spec["mono"] = tuple(a2.split())
                elif d2 == "contract_pre":
                    # an additional precondition of this unit's PROOF of a shared contract (the assumed contract elsewhere lacks it:
                    # it is a hypothesis the proof needs, listed in the evidence as an assumption)
                    spec["contract_pre"] = a2
                elif d2 == "attr":
                    spec.setdefault("attrs", []).append(a2)
                elif d2 == "lift":
                    spec["lift"] = a2
                elif d2 == "body_ret":
                    spec["body_ret"] = a2
                elif d2 == "stub":
                    spec["stub"] = True
                elif d2 == "body_contract":
                    cur, cur_line = ("body_contract",), i + 2
                elif d2 == "contract_extra":
                    cur, cur_line = ("contract_extra",), i + 2
                elif d2 == "contract":
                    cur, cur_line = ("contract",), i + 2
                elif d2 == "loop":
                    cur, cur_line = ("loop", int(a2)), i + 2
                elif d2 in ("before", "after"):
                    mm = re.match(r"`(.*)`\s*(?:#(\d+))?$", a2)
                    if not mm:
                        raise rsx.RsxError("%s.vrs:%d bad anchor directive" % (name, i + 1))
                    cur, cur_line = (d2, mm.group(1), int(mm.group(2)) if mm.group(2) else None), i + 2
                else:
                    raise rsx.RsxError("%s.vrs:%d unknown directive //@%s" % (name, i + 1, d2))
                i += 1
            src = get_src(rel)
            if spec.get("contract_pre") and spec.get("contract"):
                ctext, cline = spec["contract"]
                if not re.search(r"\brequires\b", ctext):
                    raise rsx.RsxError("%s.vrs: contract_pre on a contract without requires" % name)
                spec["contract"] = (re.sub(r"\brequires\b", "requires " + spec["contract_pre"] + ",", ctext, count=1), cline)
                u.notes.append("%s :: %s: extra hypothesis of the proof: %s" % (rel, path[-1], spec["contract_pre"]))
            if wrap:
                u.lines.append((wrap + " {", ("gen", "wrap", 0)))
            if d == "fn":
                if not spec["loops"] and "loop_count" not in spec:
                    spec["loops"] = {} if True else None
                if spec.get("lift"):
                    w = rsx.weave_lifted(src, path, rel, spec, get_src("h263/src/parser/reader.rs"))
                else:
                    w = rsx.weave_fn(src, path, rel, spec)
            else:
                w = rsx.extract_verbatim(src, path, rel, keep_pub=spec.get("keep_pub", False), subst=spec["subst"])
            emit_woven(w, path, rel)
            if spec.get("contract_name"):
                (u.assumes if spec.get("stub") else u.proves).append(spec["contract_name"])
            if wrap:
                u.lines.append(("}", ("gen", "wrap", 0)))
                wrap = None
        else:
            raise rsx.RsxError("%s.vrs:%d unknown directive //@%s" % (name, i + 1, d))
    return u


def fn_extents(text):
    """[(name, first_line, last_line, is_proof)] for every fn with a body in the generated file"""
    s = rsx.Src(text, "<generated>")
    out = []
    toks = s.toks
    for k, (kind, a, b) in enumerate(toks):
        if kind == "id" and text[a:b] == "fn":
            j = s.next_sig(k, len(toks))
            if j >= len(toks) or toks[j][0] != "id":
                continue
            name = s.t(j)
            # spec fns are not obligations
            back = text[max(0, a - 40):a]
            is_spec = bool(re.search(r"\bspec\s+(\(checked\)\s+)?$", back)) or bool(re.search(r"\bspec\s*$", back))
            e = j
            end = None
            seen_clause = False
            prev_sig = None
            while e < len(toks):
                tk = toks[e]
                if tk[0] in ("ws", "lc", "bc"):
                    e += 1
                    continue
                ttxt = text[tk[1]:tk[2]]
                if tk[0] == "id" and ttxt in ("requires", "ensures", "decreases", "recommends", "opens_invariants", "no_unwind", "invariant"):
                    seen_clause = True
                if tk[0] == "p":
                    ch = ttxt
                    if ch == "{":
                        # the body brace: no contract clause yet, or (convention: clause lists end with a trailing comma) directly after a comma
                        if not seen_clause or prev_sig == ",":
                            end = s.match[e]
                            break
                        e = s.match[e]
                    elif ch == ";" :
                        break
                    elif ch in "([":
                        e = s.match[e]
                prev_sig = text[toks[e][1]:toks[e][2]]
                e += 1
            if end is None or is_spec:
                continue
            is_proof = bool(re.search(r"\bproof\s+$", back))
            out.append((name, s.line_of(a), s.line_of(toks[end][1]), is_proof))
    return out


def run_unit(name, prop):
    t0 = time.time()
    res = {"cmd": "verus <generated %s.rs> --output-json --time --multiple-errors 50 --error-format=json" % name, "seconds": 0.0, "trusted": [], "obligations": []}

    def undecided(reason):
        res["obligations"].append({"id": "verus.%s" % name, "engine": "verus/z3", "what": "unit " + name, "status": "undecided", "reason": reason, "seconds": 0, "unit": name})
        return res

    try:
        u = build_unit(name)
    except rsx.RsxError as e:
        return undecided("extraction/weaving refused: %s" % e)
    except FileNotFoundError as e:
        return undecided("missing file: %s" % e)
    gdir = os.path.join(vlib.WORK, "verus")
    os.makedirs(gdir, exist_ok=True)
    gpath = os.path.join(gdir, name + ".rs")
    text = "\n".join(l for l, _ in u.lines) + "\n"
    open(gpath, "w").write(text)
    cmd = ["verus", gpath, "--output-json", "--time", "--multiple-errors", "50", "--error-format=json", "--rlimit", "60"] + u.verus_args
    res["cmd"] += " " + " ".join(u.verus_args)
    import subprocess
    try:
        p = subprocess.run(cmd, stdout=subprocess.PIPE, stderr=subprocess.PIPE, text=True, timeout=900, cwd=gdir, env=vlib.ENV)
    except subprocess.TimeoutExpired:
        return undecided("verus timed out after 900 s")
    res["seconds"] = time.time() - t0
    open(gpath + ".stderr", "w").write(p.stderr)
    open(gpath + ".stdout", "w").write(p.stdout)
    try:
        out = json.loads(p.stdout)
    except Exception:
        return undecided("verus produced no JSON result (front-end crash?): " + p.stderr[-300:])
    vr = out.get("verification-results", {})
    diags = []
    for l in p.stderr.splitlines():
        if l.startswith("{"):
            try:
                d = json.loads(l)
            except Exception:
                continue
            if d.get("level") == "error" and not d.get("message", "").startswith("aborting due to"):
                diags.append(d)
    # front-end errors => undecided
    fe = [d for d in diags if d.get("code") or not VERIF_FAIL.search(d.get("message", "")) and not RLIMIT.search(d.get("message", ""))]
    if vr.get("encountered-vir-error") or fe or (vr.get("verified", 0) + vr.get("errors", 0) == 0):
        msg = (fe[0].get("rendered") or fe[0].get("message"))[:600] if fe else "no function was verified"
        return undecided("verus front end rejected the generated unit (tool limit or extraction drift, not a property verdict): " + msg)

    exts = fn_extents(text)
    lines = text.split("\n")
    # refinement passes: a function verified alone with its own solver options (the main pass's diagnostics inside it are dropped)
    for (rfn, rargs) in u.refine:
        span = [(a, b) for (fname, a, b, isp) in exts if fname == rfn]
        if not span:
            return undecided("verus_refine: function %s not found" % rfn)
        cmd2 = ["verus", gpath, "--multiple-errors", "50", "--error-format=json", "--verify-root", "--verify-function", rfn] + rargs
        try:
            p2 = subprocess.run(cmd2, stdout=subprocess.PIPE, stderr=subprocess.PIPE, text=True, timeout=900, cwd=gdir, env=vlib.ENV)
        except subprocess.TimeoutExpired:
            return undecided("verus timed out on %s" % rfn)
        open(gpath + ".stderr", "a").write(p2.stderr)
        res["cmd"] += " ;; verus <unit> --verify-function %s %s" % (rfn, " ".join(rargs))
        (a, b) = span[0]
        diags = [d for d in diags if not any(a <= s["line_start"] <= b for s in d.get("spans", []) if s.get("is_primary"))]
        ok_line = False
        for l in (p2.stderr + p2.stdout).splitlines():
            if "verification results" in l:
                ok_line = True
            if l.startswith("{"):
                try:
                    d = json.loads(l)
                except Exception:
                    continue
                if d.get("level") == "error" and not d.get("message", "").startswith("aborting due to"):
                    diags.append(d)
        if not ok_line:
            return undecided("refinement pass for %s gave no verdict" % rfn)

    def tags_in(a, b):
        found = []
        for ln in range(a, b + 1):
            for m in TAG.finditer(lines[ln - 1]):
                for pp in re.split(r",\s*", m.group(1)):
                    found.append((pp, m.group(2), ln))
        return found

    # smt seconds per function (for evidence)
    ftime = {}
    try:
        for mod in out["times-ms"]["smt"]["smt-run-module-times"]:
            for f in mod.get("function-breakdown", []):
                ftime[f["function"].split("::")[-1]] = ftime.get(f["function"].split("::")[-1], 0) + f.get("time-micros", 0) / 1e6
    except Exception:
        pass

    # attribute diagnostics
    per_fn = {}  # index in exts -> list of (props, label, message, line, origin)
    stray = []
    for d in diags:
        spans = d.get("spans", [])
        prim = [s for s in spans if s.get("is_primary")] or spans
        if not prim:
            stray.append(d)
            continue
        pl = prim[0]["line_start"]
        owner = None
        for idx, (fname, a, b, isp) in enumerate(exts):
            if a <= pl <= b:
                owner = idx  # innermost = last match with a<=pl<=b; nested fns rare
        if owner is None:
            stray.append(d)
            continue
        # tags: on any span line (primary or secondary, e.g. the callee's requires clause)
        tg = []
        for s in spans:
            if (s.get("label") or "").startswith("at the end of the function body") or (s.get("label") or "").startswith("at this exit"):
                continue
            for ln in range(s["line_start"], s["line_end"] + 1):
                for m in TAG.finditer(lines[ln - 1]):
                    for pp in re.split(r",\s*", m.group(1)):
                        tg.append((pp, m.group(2)))
        origin = u.lines[pl - 1][1] if pl - 1 < len(u.lines) else ("?", "?", 0)
        per_fn.setdefault(owner, []).append({"tags": tg, "message": d["message"], "line": pl, "origin": origin, "text": lines[pl - 1].strip()[:160],
                                             "rlimit": bool(RLIMIT.search(d["message"])), "rendered": (d.get("rendered") or "")[:1500]})
    if stray:
        return undecided("diagnostic outside any function: " + stray[0].get("message", ""))

    # canaries
    for idx, (fname, a, b, isp) in enumerate(exts):
        if fname.startswith("canary_") and idx not in per_fn:
            return undecided("vacuity canary `%s` verified: a precondition family is contradictory" % fname)

    # obligations for this property
    for idx, (fname, a, b, isp) in enumerate(exts):
        if fname.startswith("canary_") or fname == "main":
            continue
        ftags = tags_in(a, b)
        if fname.endswith("_body"):
            # R5 pair: the lifted closure body `f_body` establishes what the wrapper `f` (the text of with_transaction*) passes on, so a
            # failure inside the body also counts against every property with a clause on the wrapper's contract
            for (wname, wa, wb, _wisp) in exts:
                if wname == fname[:-5]:
                    ftags = ftags + tags_in(wa, wb)
        props_of_fn = set(pp for pp, _, _ in ftags)
        is_repo_fn = any(u.lines[ln - 1][1][0] == "repo" for ln in range(a, min(b, len(u.lines)) + 1))
        if is_repo_fn:
            props_of_fn.update(u.default_props)
            if u.safety_prop:
                props_of_fn.add(u.safety_prop)
        errs = per_fn.get(idx, [])
        # which errors concern `prop`?
        mine = []
        for e in errs:
            eprops = set(pp for pp, _ in e["tags"])
            if not eprops:
                if e["origin"][0] == "repo":
                    # untagged failure inside repo code: a safety obligation (overflow, bounds, division, callee precondition). It counts
                    # against the safety property and against every property with a clause in this function's contract: Verus assumes
                    # the failed check afterwards, so the functional clauses are only established for the inputs that do not trip it
                    eprops = ({u.safety_prop} if u.safety_prop else set(u.default_props)) | set(pp for pp, _, _ in ftags)
                else:
                    # untagged proof scaffolding (an overlay assert / invariant) failed: Verus assumes it afterwards, so every property
                    # whose clauses are proved inside this function is no longer established
                    eprops = set(props_of_fn)
            if prop in eprops:
                mine.append(e)
        if prop not in props_of_fn and not mine:
            continue
        oid = "verus.%s.%s" % (name, fname)
        ob = {"id": oid, "engine": "verus/z3", "seconds": round(ftime.get(fname, 0.0), 3),
              "what": "%s %s: %s" % ("lemma" if isp else "fn", fname, "; ".join(sorted(set(lbl for pp, lbl, _ in ftags if pp == prop))) or "safety (no overflow / bounds / division / callee preconditions) and termination"),
              "unit": name}
        if not mine:
            if errs and all(e["rlimit"] for e in errs):
                ob["status"], ob["reason"] = "undecided", "resource limit in " + fname
            else:
                ob["status"] = "discharged"
        elif all(e["rlimit"] for e in mine):
            ob["status"], ob["reason"] = "undecided", "resource limit: " + mine[0]["message"]
        elif u.drift_hard.get(fname) or u.drift_hard.get(re.sub(r"_body$", "", fname)):
            # the function changed shape and loop invariants / proof blocks of the overlay could not be placed: a failed proof is then no
            # verdict about the code (the driver falls back to the executable sibling harnesses of the unit)
            dh = u.drift_hard.get(fname) or u.drift_hard.get(re.sub(r"_body$", "", fname))
            ob["status"], ob["reason"] = "undecided", "proof hints lost (%s); first unproved: %s" % ("; ".join(dh)[:300], mine[0]["message"])
        else:
            ob["status"] = "failed"
            fc = []
            for e in mine:
                lbls = [lbl for pp, lbl in e["tags"] if pp == prop]
                where = "%s:%s" % (e["origin"][1], e["origin"][2]) if e["origin"][0] == "repo" else "contract %s:%s" % (e["origin"][1], e["origin"][2])
                fc.append("%s%s @ %s `%s`" % (e["message"], (" [" + ",".join(lbls) + "]") if lbls else "", where, e["text"][:100]))
            ob["failed_checks"] = fc
            ob["verifier_output"] = "\n".join(e["rendered"] for e in mine)[:6000]
            ob["witness"] = None
        res["obligations"].append(ob)

    # trusted base scan of the generated file
    scan = vlib.scan_trusted([gpath])
    res["trusted"] = ["verus unit %s: %s" % (name, s.split(": ", 1)[1]) for s in scan]
    for n in u.notes:
        res["trusted"].append("extraction %s: %s" % (name, n))
    res["items"] = u.items
    res["proves"] = u.proves
    res["assumes"] = u.assumes
    for a in u.assumes:
        res["trusted"].append("unit %s assumes shared contract `%s` (proved by the unit/harness registered for it, see registry.CONTRACT_PROVED_BY)" % (name, a))
    return res


# witness search for failed Verus obligations: Verus gives no counterexample, so the failed contract's *sibling harness* (the same
# postcondition, executable, in the hook module of the function) is run natively on seeded pseudo-random inputs of the real code.
def witness_search(ob, seed, only=None, unit_wide=False):
    import registry
    fn = ob["id"].split(".")[-1]
    if unit_wide:
        cfg = registry.VERUS_WITNESS.get((ob.get("unit"), "*"))
    else:
        cfg = registry.VERUS_WITNESS.get((ob.get("unit"), fn)) or registry.VERUS_WITNESS.get(("*", fn))
        if cfg is not None:
            only = None  # harness of this very function: every clause is a clause of the failed contract
        else:
            cfg = registry.VERUS_WITNESS.get((ob.get("unit"), "*"))
    if cfg is None:
        return {"reproduced": False, "detail": "no native witness search registered for %s; the failed obligation and the verifier output are in this file" % ob["id"]}
    last = {"reproduced": False, "detail": "no sibling harness of %s carries clauses of this property" % ob["id"]}
    for ent in cfg:
        (crate, modpath, harness, nbytes, tries) = ent[:5]
        flt = only
        if len(ent) > 5 and only:
            # harness whose clauses all belong to the listed properties (labels carry no tag)
            if only not in ent[5]:
                continue
            flt = None
        r = vlib.native_search(crate, modpath, harness, nbytes, seed, tries=tries, only=flt)
        last = {"crate": crate, "module": modpath, "harness": harness, "reproduced": r["reproduced"], "detail": r["detail"], "witness_bytes": r.get("witness"), "output_tail": r.get("output", "")[-800:]}
        if r["reproduced"]:
            return last
    return last


def rerun_native(nr):
    return {"reproduced": False, "detail": "n/a"}
