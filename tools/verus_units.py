# Verus units: extraction + weaving + verification (filled in below)
def run_unit(unit, prop):
    raise NotImplementedError


def witness_search(ob, seed):
    return {"reproduced": False, "detail": "no witness search registered"}


def rerun_native(nr):
    return {"reproduced": False, "detail": "n/a"}
