#!/usr/bin/env python3
# seed_eval.py <worktree> <prop> <mutant dir name> [--tier quick] [--props C09,C16]
# 1. confirms the seeded change in the scratch worktree: existing tests pass with it, the demonstration fails with it and
#    passes without it; 2. stores it under /verif/seeded/<prop>-<m>/; 3. applies it to /repo, runs the check(s), reverts.
import sys, os, json, subprocess, shutil, re, time

def sh(cmd, cwd=None, timeout=3600):
    p = subprocess.run(cmd, shell=True, cwd=cwd, stdout=subprocess.PIPE, stderr=subprocess.STDOUT, text=True, timeout=timeout)
    return p.returncode, p.stdout

def main():
    wt, prop, m = sys.argv[1], sys.argv[2], sys.argv[3]
    tier = "quick"
    props = [prop]
    for i, a in enumerate(sys.argv):
        if a == "--tier":
            tier = sys.argv[i + 1]
        if a == "--props":
            props = sys.argv[i + 1].split(",")
    sd = os.path.join(wt, "SEED", m)
    meta = json.load(open(os.path.join(sd, "meta.json")))
    patch = os.path.join(sd, "patch.diff")
    demo = os.path.join(sd, "demo.rs")
    out = {"property": prop, "mutant": m, "what_changed": meta.get("what_changed"), "needs_to_manifest": meta.get("needs_to_manifest"), "ran": []}
    # --- confirm in the scratch worktree
    sh("git checkout -- . && git clean -fdq -e SEED", cwd=wt)
    target = meta.get("demo_target", "").split(" ")[0].strip()
    kind = meta.get("demo_kind", "integration_test")
    def place_demo():
        if kind == "integration_test":
            tp = os.path.join(wt, target)
            os.makedirs(os.path.dirname(tp), exist_ok=True)
            shutil.copy(demo, tp)
            crate = target.split("/")[0]
            name = os.path.splitext(os.path.basename(target))[0]
            pkg = {"h263": "h263-rs", "yuv": "h263-rs-yuv", "deblock": "h263-rs-deblock"}[crate]
            return "cargo test --offline -p %s --test %s" % (pkg, name)
        else:
            tp = os.path.join(wt, target)
            s = open(tp).read()
            # insert before the verif hook block
            idx = s.rfind("#[cfg(any(kani, ruffle_rs_h263_rs_verif))]")
            s = s[:idx] + open(demo).read() + "\n" + s[idx:]
            open(tp, "w").write(s)
            crate = target.split("/")[0]
            pkg = {"h263": "h263-rs", "yuv": "h263-rs-yuv", "deblock": "h263-rs-deblock"}[crate]
            return "cargo test --offline -p %s --lib seed_demo" % pkg
    cmd = place_demo()
    rc0, o0 = sh(cmd, cwd=wt)
    out["demo_without_change"] = "pass" if rc0 == 0 else "FAIL"
    sh("git checkout -- . && git clean -fdq -e SEED", cwd=wt)
    rc, o = sh("git apply %s" % patch, cwd=wt)
    if rc != 0:
        out["error"] = "patch does not apply: " + o[-300:]
        print(json.dumps(out, indent=1)); return 2
    rc1, o1 = sh("cargo test --workspace --offline", cwd=wt)
    out["existing_tests_with_change"] = "pass" if rc1 == 0 else "FAIL"
    cmd = place_demo()
    rc2, o2 = sh(cmd, cwd=wt)
    out["demo_with_change"] = "fail (as required)" if rc2 != 0 else "PASSES (mutant not demonstrated)"
    out["ran"] += ["cargo test --workspace --offline (with change)", cmd + " (with and without change)"]
    sh("git checkout -- . && git clean -fdq -e SEED", cwd=wt)
    confirmed = rc0 == 0 and rc1 == 0 and rc2 != 0
    out["confirmed"] = confirmed
    # --- store
    dst = os.path.join("/verif/seeded", "%s-%s" % (prop, m))
    os.makedirs(dst, exist_ok=True)
    shutil.copy(patch, os.path.join(dst, "patch.diff"))
    shutil.copy(demo, os.path.join(dst, "demo.rs"))
    # --- run the checks against it
    results = {}
    if confirmed:
        # the checks run against the scratch worktree with the change applied (VERIF_REPO), with their own work and
        # output directories, so that /repo, /verif/evidence and concurrent runs are not disturbed
        rc, o = sh("git apply %s" % patch, cwd=wt)
        env = "VERIF_REPO=%s VERIF_WORK=/var/tmp/h263-verif-seed/%s VERIF_OUT=/var/tmp/h263-verif-seed/%s/out" % (wt, prop + "-" + m, prop + "-" + m)
        try:
            for p in props:
                t0 = time.time()
                rc, o = sh("%s ./check %s --tier %s" % (env, p, tier), cwd=os.path.dirname(os.path.dirname(os.path.abspath(__file__))), timeout=7200)
                viol = [l for l in o.splitlines() if l.startswith("VIOLATION") or l.startswith("UNDECIDED") or l.startswith("  failed obligation") or l.startswith("  native replay")]
                results[p] = {"exit": rc, "seconds": round(time.time() - t0), "lines": viol[:12], "summary": o.strip().splitlines()[-1] if o.strip() else "",
                              "cmd": "%s ./check %s --tier %s" % (env, p, tier)}
        finally:
            sh("git checkout -- . && git clean -fdq -e SEED", cwd=wt)
            shutil.rmtree("/var/tmp/h263-verif-seed/%s" % (prop + "-" + m), ignore_errors=True)
    out["checks"] = results
    out["detected_by"] = [p for p, r in results.items() if r["exit"] == 1]
    meta_out = dict(meta)
    meta_out.update({"confirmation": {k: out.get(k) for k in ("demo_without_change", "existing_tests_with_change", "demo_with_change", "confirmed", "ran")},
                     "checks_run": results, "detected_by": out["detected_by"]})
    json.dump(meta_out, open(os.path.join(dst, "meta.json"), "w"), indent=1)
    print(json.dumps(out, indent=1))
    return 0

if __name__ == "__main__":
    sys.exit(main())
