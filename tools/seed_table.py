#!/usr/bin/env python3
"""Regenerates the seeded-change table in DESIGN.md (between the SEEDED-TABLE markers) and seeded/RESULTS.md from seeded/*/meta.json."""
import os, json, re, glob
V = os.path.dirname(os.path.dirname(os.path.abspath(__file__)))
rows = []
for d in sorted(glob.glob(os.path.join(V, "seeded", "*-m*"))):
    mp = os.path.join(d, "meta.json")
    if not os.path.exists(mp):
        continue
    m = json.load(open(mp))
    name = os.path.basename(d)
    what = re.sub(r"\s+", " ", m.get("what_changed", "")).replace("|", "\\|")
    if len(what) > 230:
        what = what[:227] + "..."
    conf = m.get("confirmation", {}).get("confirmed")
    cr = m.get("checks_run", {})
    outs = []
    for p, r in cr.items():
        verdict = {0: "quiet", 1: "VIOLATION", 2: "undecided"}.get(r.get("exit"), str(r.get("exit")))
        obl = []
        for l in r.get("lines", []):
            mm = re.match(r"\s*failed obligation (\S+?):? ", l)
            if mm and mm.group(1).rstrip(":") not in obl:
                obl.append(mm.group(1).rstrip(":"))
        vl = [l for l in r.get("lines", []) if l.startswith("VIOLATION")]
        wit = ""
        if verdict == "VIOLATION":
            wit = "failing input replayed on the real code" if any("no-failing-input-found" not in l for l in vl) else "no-failing-input-found"
        und = [l for l in r.get("lines", []) if "undecided (" in l or l.startswith("UNDECIDED")]
        if und and verdict == "VIOLATION" and not obl:
            obl = ["sibling harness after the unit was undecided"]
        outs.append("%s: %s%s%s" % (p, verdict, (" — " + ", ".join("`%s`" % o for o in obl[:3])) if obl else "", (" (" + wit + ")") if wit else ""))
    note = m.get("note", "")
    rows.append("| %s | %s | %s | %s | %s |" % (name, what, "yes" if conf else "NO", "<br>".join(outs) or "not run", note))
table = "| seeded change | what it does | confirmed (tests pass, demo fails) | check result on the changed tree | note |\n|---|---|---|---|---|\n" + "\n".join(rows) + "\n"
open(os.path.join(V, "seeded", "RESULTS.md"), "w").write("# Seeded changes and what the checks reported\n\n" + table)
dp = os.path.join(V, "DESIGN.md")
s = open(dp).read()
s2 = re.sub(r"(<!-- SEEDED-TABLE-BEGIN -->\n).*?(<!-- SEEDED-TABLE-END -->)", lambda mo: mo.group(1) + table + mo.group(2), s, flags=re.S)
open(dp, "w").write(s2)
print(len(rows), "rows")
