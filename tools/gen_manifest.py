#!/usr/bin/env python3
# Regenerates /verif/MANIFEST.json from tools/registry.py (single source of truth for what is claimed).
import json, os, sys, subprocess
sys.path.insert(0, os.path.dirname(os.path.abspath(__file__)))
import registry, vlib

ALL = ["C%02d" % i for i in range(1, 18)]
checks = []
for p in ALL:
    if p not in registry.PROPS:
        continue
    s = registry.PROPS[p]
    checks.append({
        "property_id": p,
        "quick_cmd": "./check %s --tier quick" % p,
        "thorough_cmd": "./check %s --tier thorough" % p,
        "evidence_file": "/verif/evidence/%s.json" % p,
        "replay_cmd_template": "./check %s --replay {path}" % p,
        "engine": s.get("engine", "verus+kani"),
        "level_claimed": {"category": s.get("level", "proof"), "text": s["level_text"], "design_ref": s.get("design_ref", "DESIGN.md section 4 / " + p)},
        "level_note": s["level_note"],
        "technique": s.get("technique", "contract-based deductive verification of the real code (Verus contracts on mechanically extracted functions; Kani/CBMC contract harnesses on the crate compiled in place)"),
    })
na = []
for p in ALL:
    if p in registry.PROPS:
        continue
    na.append({"property_id": p, "reason": registry.NOT_APPLICABLE.get(p, "no check committed yet for this property (work in progress; see DESIGN.md)")})
try:
    commits = subprocess.run(["git", "-C", "/repo", "log", "--format=%h %s", "--grep", "^verif hooks"], stdout=subprocess.PIPE, text=True).stdout.strip().splitlines()
except Exception:
    commits = []
m = {
    "version": 1,
    "setup_cmd": "./setup.sh",
    "hooks": {
        "guard": "cfg(kani) (set by cargo-kani) or --cfg ruffle_rs_h263_rs_verif (native replay build)",
        "enable": "Kani: `cargo kani --manifest-path /repo/<crate>/Cargo.toml` compiles the crate in place with cfg(kani), which activates the `#[path=\"/verif/hooks/...\"] mod verif_hook;` line appended to each source file; native replay: RUSTFLAGS='--cfg ruffle_rs_h263_rs_verif' cargo test --lib",
        "baseline_off_cmd": "cd /repo && cargo test --workspace --no-fail-fast --offline",
        "source_commits": [c.split()[0] for c in commits],
        "add_only": True,
    },
    "engines": [
        {"name": "verus", "path": "/verif/tools/verus_units.py + /verif/tools/rsx.py + /verif/contracts/verus", "serves_properties": sorted(p for p in registry.PROPS if registry.PROPS[p].get("verus")), "kind_free_text": "Verus 0.2026.09.13 (z3): contracts woven into functions extracted token-exact from /repo on every run"},
        {"name": "kani", "path": "/verif/hooks + /verif/tools/vlib.py", "serves_properties": sorted(p for p in registry.PROPS if registry.kani_harnesses(p, "thorough")), "kind_free_text": "Kani 0.68 / CBMC 6.11 (CaDiCaL): contract check harnesses + contract stubs compiled inside the real modules"},
    ],
    "checks": checks,
    "notes": "exit 0 = all obligations discharged; exit 1 = VIOLATION (replay file names the failed obligation, native replay result inside); exit 2 = undecided (tool limit, lost anchor, timeout) - never an alarm. Known findings: /verif/known_findings.json.",
    "not_applicable": na,
}
json.dump(m, open(os.path.join(vlib.VERIF, "MANIFEST.json"), "w"), indent=1)
print("MANIFEST.json: %d checks, %d not_applicable" % (len(checks), len(na)))
