# Driver library: runs Kani harnesses and Verus units against /repo's working tree, classifies every obligation
# (discharged / failed / undecided), replays failures natively, applies known_findings.json, writes evidence.
import json, os, re, subprocess, sys, time, hashlib, random, shutil

VERIF = os.path.dirname(os.path.dirname(os.path.abspath(__file__)))
REPO = os.environ.get("VERIF_REPO", "/repo")
WORK = os.environ.get("VERIF_WORK", "/var/tmp/h263-verif")
NCPU = int(os.environ.get("VERIF_JOBS", str(os.cpu_count() or 4)))
GUARD = "ruffle_rs_h263_rs_verif"

ENV = dict(os.environ)
ENV["CARGO_NET_OFFLINE"] = "true"
ENV.pop("RUSTFLAGS", None)


def log(msg):
    print(msg, flush=True)


def sh(cmd, timeout=None, env=None, cwd=None, out_path=None):
    """run, capture combined output; returns (rc, text, seconds); rc=None on timeout"""
    t0 = time.time()
    try:
        p = subprocess.run(cmd, stdout=subprocess.PIPE, stderr=subprocess.STDOUT, timeout=timeout, env=env or ENV,
                           cwd=cwd, text=True, errors="replace", start_new_session=True)
        rc, text = p.returncode, p.stdout
    except subprocess.TimeoutExpired as e:
        rc, text = None, (e.stdout or "") if isinstance(e.stdout, str) else (e.stdout or b"").decode("utf8", "replace")
        kill_cbmc()
    if out_path:
        os.makedirs(os.path.dirname(out_path), exist_ok=True)
        with open(out_path, "w") as f:
            f.write(text)
    return rc, text, time.time() - t0


def kill_cbmc():
    # cargo-kani's children survive a timeout of the parent; kill by pid (never pkill -f)
    try:
        out = subprocess.run(["pgrep", "-f", "[c]bmc --"], stdout=subprocess.PIPE, text=True).stdout
        for pid in out.split():
            try:
                os.kill(int(pid), 9)
            except Exception:
                pass
    except Exception:
        pass


# ----------------------------------------------------------------------------------------------------------
# Kani
# ----------------------------------------------------------------------------------------------------------
class KResult:
    def __init__(self, name):
        self.name = name
        self.status = "missing"  # successful | failed | undecided | missing
        self.time = 0.0
        self.failed_checks = []  # [(description, file, line, function)]
        self.checks_total = 0
        self.checks_failed = 0
        self.cover_ok = None
        self.witness = None  # flat list of bytes (counterexample, or cover witness when successful)
        self.stubs = []
        self.reason = ""
        self.raw = ""

    def to_json(self):
        return {"harness": self.name, "status": self.status, "seconds": round(self.time, 2), "cbmc_checks": self.checks_total,
                "failed_checks": [list(c) for c in self.failed_checks], "stubs": self.stubs, "reason": self.reason}


UNDECIDED_PAT = re.compile(r"unwinding assertion|not supported|unsupported|is not currently supported|recursion unwinding", re.I)


def _demux_threads(text):
    """`cargo kani -j N` prefixes per-harness progress lines with `Thread k: ` and prints each result block,
    unprefixed, right after a bare `Thread k: ` line; regroup into the sequential layout."""
    if not re.search(r"(?m)^Thread \d+: ", text):
        return text
    per = {}
    order = []
    cur = None
    head = []
    for line in text.splitlines():
        m = re.match(r"Thread (\d+): ?(.*)$", line)
        if m:
            t, rest = m.group(1), m.group(2)
            if rest.startswith("Checking harness "):
                key = (t, len(order))
                order.append(key)
                per[key] = [rest]
                cur = key
                # remember latest block of this thread
                per.setdefault(("last", t), None)
                per[("last", t)] = key
            else:
                key = per.get(("last", t))
                if key is not None:
                    per[key].append(rest)
                    cur = key
        else:
            if cur is None:
                head.append(line)
            else:
                per[cur].append(line)
    out = head[:]
    for key in order:
        out += per[key]
    return "\n".join(out) + "\n"


def parse_kani_log(text, names):
    res = {n: KResult(n) for n in names}
    text = _demux_threads(text)
    blocks = re.split(r"(?m)^Checking harness ", text)
    for b in blocks[1:]:
        m = re.match(r"(\S+?)\.\.\.", b)
        if not m:
            continue
        name = m.group(1)
        if name not in res:
            continue
        r = res[name]
        r.raw = b
        r.stubs = re.findall(r"(?m)^\s*- Stub: (.+)$", b)
        m = re.search(r"\*\* (\d+) of (\d+) failed", b)
        if m:
            r.checks_failed, r.checks_total = int(m.group(1)), int(m.group(2))
        m = re.search(r"\*\* (\d+) of (\d+) cover properties satisfied", b)
        if m:
            r.cover_ok = int(m.group(1)) == int(m.group(2)) and int(m.group(2)) > 0
        m = re.search(r"Verification Time: ([0-9.]+)s", b)
        if m:
            r.time = float(m.group(1))
        for fm in re.finditer(r"Failed Checks: (.*)\n(?: File: \"([^\"]*)\", line (\d+), in (\S+))?", b):
            r.failed_checks.append((fm.group(1).strip(), fm.group(2) or "", int(fm.group(3) or 0), fm.group(4) or ""))
        # playback bytes: prefer the test generated for a failed check (not the one for the `cover`)
        cands = []
        for pm in re.finditer(r"/// Check for `(\w+)`: \"([^\"]*)\"(?:(?!/// Check for).)*?let concrete_vals: Vec<Vec<u8>> = vec!\[(.*?)\n    \];", b, re.S):
            flat = []
            for vm in re.finditer(r"vec!\[([0-9, ]*)\]", pm.group(3)):
                flat += [int(x) for x in vm.group(1).replace(" ", "").split(",") if x]
            cands.append((pm.group(1), pm.group(2), flat))
        non_cover = [c for c in cands if c[0] != "cover"]
        if non_cover:
            r.witness = non_cover[0][2]
            r.witness_for = non_cover[0][1]
        elif cands:
            r.witness = cands[0][2]
            r.witness_for = "cover"
        if "VERIFICATION:- SUCCESSFUL" in b:
            if r.cover_ok is False:
                r.status, r.reason = "undecided", "vacuous: end of harness unreachable (contradictory precondition?)"
            else:
                r.status = "successful"
        elif "VERIFICATION:- FAILED" in b:
            real = [c for c in r.failed_checks if not UNDECIDED_PAT.search(c[0])]
            if r.failed_checks and not real:
                r.status, r.reason = "undecided", "only unwinding/unsupported-construct checks failed: " + "; ".join(c[0] for c in r.failed_checks)
            elif not r.failed_checks:
                r.status, r.reason = "undecided", "FAILED without a failed check (timeout / out of memory / tool error)"
            else:
                r.failed_checks = real
                r.status = "failed"
        else:
            r.status, r.reason = "undecided", "no verdict (timeout / crash)"
    return res


def _kani_cmd(crate, full, harness_timeout, jobs, playback):
    tdir = os.path.join(WORK, "kani-" + crate)
    cmd = ["cargo", "kani", "--manifest-path", os.path.join(REPO, crate, "Cargo.toml"), "--target-dir", tdir,
           "-Z", "stubbing", "-Z", "unstable-options", "--harness-timeout", "%ds" % harness_timeout, "--output-format", "terse", "--exact"]
    if playback:
        cmd += ["-Z", "concrete-playback", "--concrete-playback=print"]
    else:
        cmd += ["-j", str(jobs)]
    for f in full:
        cmd += ["--harness", f]
    return cmd


def run_kani(crate, prefix, harnesses, harness_timeout=600, tag="run", heavy=()):
    """crate: 'deblock' | 'yuv' | 'h263'; prefix: module path of the proofs; returns {short name: KResult}.
    Pass 1: all harnesses in parallel (-j). Pass 2: the failed ones again, sequentially, with concrete playback
    (Kani refuses --concrete-playback together with --jobs)."""
    if not harnesses:
        return {}, "", 0.0, ""
    full = [prefix + "::" + h for h in harnesses]
    logp = os.path.join(WORK, "logs", "kani-%s-%s.log" % (crate, tag))
    # the Kani driver keeps the output of every harness of an invocation in memory (192 deblock geometry harnesses took 56 GB and were
    # OOM-killed): large lists are run in chunks
    CHUNK = int(os.environ.get("VERIF_KANI_CHUNK", "48"))
    # `heavy` harnesses (large images: the driver needs several GB per running harness) run apart, four at a time
    hv = set(prefix + "::" + h for h in heavy)
    groups = []
    light = [f for f in full if f not in hv]
    for c0 in range(0, len(light), CHUNK):
        groups.append((light[c0:c0 + CHUNK], NCPU))
    hlist = [f for f in full if f in hv]
    for c0 in range(0, len(hlist), 12):
        groups.append((hlist[c0:c0 + 12], 4))
    text, secs, cmd = "", 0.0, None
    for gi, (part, maxj) in enumerate(groups):
        jobs = max(1, min(maxj, len(part)))
        cmd = _kani_cmd(crate, part, harness_timeout, jobs, False)
        waves = (len(part) + jobs - 1) // jobs
        rc, t1, s1 = sh(cmd, timeout=300 + waves * (harness_timeout + 30), out_path=logp if gi == 0 else logp + ".%d" % gi)
        text += t1 + "\n"
        secs += s1
    res = parse_kani_log(text, full)
    failed = [f for f in full if res[f].status == "failed"]
    if failed:
        # concrete playback is sequential and slow (--trace): at most 3 harnesses get a Kani witness, the
        # others fall back to the native witness search of the same contract
        failed = sorted(failed, key=lambda f: res[f].time)[:3]
        cmd2 = _kani_cmd(crate, failed, harness_timeout, 1, True)
        rc2, text2, secs2 = sh(cmd2, timeout=300 + len(failed) * (harness_timeout + 30), out_path=logp + ".playback")
        res2 = parse_kani_log(text2, failed)
        for f in failed:
            if res2[f].status == "failed" and res2[f].witness is not None:
                res[f].witness = res2[f].witness
                res[f].raw = res2[f].raw
    out = {}
    for h, f in zip(harnesses, full):
        r = res[f]
        if r.status == "missing":
            em = re.search(r"(?m)^error.*$", text)
            if em:
                r.status, r.reason = "undecided", "build/tool error under cfg(kani): " + em.group(0)
            else:
                r.status, r.reason = "undecided", "no result for harness (timeout or harness not found)"
        out[h] = r
    return out, " ".join(cmd[:14]) + " --harness <%d harnesses of %s>" % (len(full), prefix), secs, logp


# ----------------------------------------------------------------------------------------------------------
# native replay (real code, real SIMD, no stubs): cargo test build with --cfg ruffle_rs_h263_rs_verif
# ----------------------------------------------------------------------------------------------------------
_native_bins = {}


def native_test_binary(crate):
    if crate in _native_bins:
        return _native_bins[crate]
    env = dict(ENV)
    env["RUSTFLAGS"] = "--cfg " + GUARD
    tdir = os.path.join(WORK, "native")
    cmd = ["cargo", "test", "--offline", "--manifest-path", os.path.join(REPO, crate, "Cargo.toml"), "--target-dir", tdir, "--lib",
           "--no-run", "--message-format=json"]
    rc, text, secs = sh(cmd, timeout=600, env=env, out_path=os.path.join(WORK, "logs", "native-build-%s.log" % crate))
    exe = None
    for line in text.splitlines():
        if line.startswith("{"):
            try:
                d = json.loads(line)
            except Exception:
                continue
            if d.get("reason") == "compiler-artifact" and d.get("executable") and d.get("profile", {}).get("test"):
                exe = d["executable"]
    _native_bins[crate] = exe
    return exe


def native_replay(crate, modpath, harness, witness, timeout=60):
    """returns dict(reproduced: bool, output: str, detail: str)"""
    exe = native_test_binary(crate)
    if not exe:
        return {"reproduced": False, "detail": "native replay build failed", "output": ""}
    env = dict(ENV)
    env["VERIF_HARNESS"] = harness
    env["VERIF_WITNESS"] = ",".join(str(b) for b in (witness or []))
    env["RUST_BACKTRACE"] = "0"
    rc, text, secs = sh([exe, modpath + "::verif_replay", "--exact", "--nocapture", "--test-threads", "1"], timeout=timeout, env=env)
    if "VERIF_WITNESS_REJECTED" in text:
        return {"reproduced": False, "detail": "witness outside the precondition", "output": text[-2000:]}
    m = re.search(r"REPLAY harness=\S+ consumed=(\d+) of=(\d+) rejected=(\w+) reached=(\w+) failed=\[(.*?)\]", text)
    pan = re.search(r"panicked at ([^\n]*)\n([^\n]*)", text)
    if m:
        failed = [x for x in m.group(5).split(";") if x]
        if m.group(3) == "true":
            return {"reproduced": False, "detail": "witness outside the precondition", "output": text[-2000:]}
        return {"reproduced": bool(failed), "detail": "native postcondition failed: " + "; ".join(failed) if failed else "native run satisfied the postcondition",
                "output": text[-2000:]}
    if pan:
        return {"reproduced": True, "detail": "native panic at %s: %s" % (pan.group(1), pan.group(2)), "output": text[-2000:]}
    if rc is None:
        return {"reproduced": True, "detail": "native run did not terminate within %ds" % timeout, "output": text[-2000:]}
    return {"reproduced": False, "detail": "native replay gave no verdict (rc=%s)" % rc, "output": text[-2000:]}


def native_search(crate, modpath, harness, nbytes, seed, tries=3000, first=None, timeout=300, only=None):
    """witness search on the real code: the verifier's witness first, then `tries` seeded pseudo-random byte strings generated and
    run inside ONE native process (hooks/common.rs verif_replay_main, search mode)"""
    if first:
        r = native_replay(crate, modpath, harness, first)
        if r["reproduced"]:
            r["witness"] = list(first)
            return r
        if "build failed" in r["detail"]:
            r["witness"] = first
            return r
    exe = native_test_binary(crate)
    if not exe:
        return {"reproduced": False, "detail": "native replay build failed", "output": "", "witness": first}
    env = dict(ENV)
    env.update({"VERIF_HARNESS": harness, "VERIF_SEARCH": str(tries), "VERIF_SEED": str(seed), "VERIF_NBYTES": str(max(1, nbytes)), "RUST_BACKTRACE": "0"})
    if only:
        env["VERIF_ONLY"] = only
    rc, text, secs = sh([exe, modpath + "::verif_replay", "--exact", "--nocapture", "--test-threads", "1"], timeout=timeout, env=env)
    m = re.search(r"REPLAY-FOUND harness=\S+ try=(\d+) detail=\[(.*?)\] witness=([0-9,]*)", text)
    if m:
        w = [int(x) for x in m.group(3).split(",") if x]
        return {"reproduced": True, "detail": "native witness search (try %s of %d, seed %d): %s" % (m.group(1), tries, seed, m.group(2)), "output": text[-1500:], "witness": w}
    if "REPLAY-NOTFOUND" in text:
        return {"reproduced": False, "detail": "native witness search: none of %d pseudo-random inputs (seed %d) violates the postcondition on the real code" % (tries, seed), "output": "", "witness": first}
    return {"reproduced": False, "detail": "native witness search gave no verdict (rc=%s): %s" % (rc, text[-300:]), "output": text[-1500:], "witness": first}


# ----------------------------------------------------------------------------------------------------------
# known findings, evidence, verdict
# ----------------------------------------------------------------------------------------------------------
def load_known():
    p = os.path.join(VERIF, "known_findings.json")
    if not os.path.exists(p):
        return []
    return json.load(open(p)).get("findings", [])


def match_known(known, prop, obligation, witness_text):
    for k in known:
        if k.get("status") != "open" or k.get("property") != prop:
            continue
        if not re.search(k["obligation_regex"], obligation):
            continue
        wr = k.get("witness_regex")
        if wr and not re.search(wr, witness_text or ""):
            continue
        return k
    return None


def sha(text):
    return hashlib.sha256(text.encode()).hexdigest()[:16]


def scan_trusted(paths):
    """mechanical scan for assumptions in the given text files"""
    found = []
    pat = re.compile(r"\b(assume\s*\(|admit\s*\(|external_body|assume_specification|external_fn_specification|kani::stub|external_type_specification|#\[verifier::external\]|axiom )")
    for p in paths:
        if not os.path.exists(p):
            continue
        for i, line in enumerate(open(p, errors="replace"), 1):
            if line.strip().startswith("//"):
                continue
            m = pat.search(line)
            if m:
                found.append("%s:%d: %s" % (os.path.relpath(p, VERIF) if p.startswith(VERIF) else p, i, line.strip()[:140]))
    return found


def repo_state():
    try:
        head = subprocess.run(["git", "-C", REPO, "rev-parse", "--short", "HEAD"], stdout=subprocess.PIPE, text=True).stdout.strip()
        dirty = subprocess.run(["git", "-C", REPO, "status", "--porcelain", "--untracked-files=no"], stdout=subprocess.PIPE, text=True).stdout.strip()
        return head + ("+dirty" if dirty else "")
    except Exception:
        return "unknown"
