#!/bin/bash
# Runs the thorough tier of every registered property once and keeps the evidence under /verif/thorough/ (the evidence/ directory holds
# the last quick run). Usage: tools/run_thorough.sh [Cxx ...]
cd "$(dirname "$0")/.."
props="${@:-C01 C02 C03 C04 C05 C06 C07 C08 C09 C11 C12 C13 C14 C15 C16}"
mkdir -p /verif/thorough
for p in $props; do
  VERIF_WORK=${VERIF_WORK:-/var/tmp/h263-verif-thorough} VERIF_OUT=/verif/thorough ./check $p --tier thorough 2>&1 | grep -E "tier=|VIOLATION|UNDECIDED|KNOWN-FINDING" | cut -c1-300
done | tee -a /verif/thorough/summary.txt
