# rsx — Rust source extractor and contract weaver for the Verus units.
#
# Every run re-reads /repo's working tree, locates items by path (`impl H263State` / `fn get_last_picture`),
# copies their text token-exact, and weaves the contract overlay in: contract clauses between signature and
# body, loop invariants in front of the n-th loop body, proof blocks before/after anchored statements.
# The only changes made to the copied text are the rewrite rules listed in DESIGN.md section 3.1 (R0..R8) and
# explicit `subst` directives of the overlay; each is recorded per item in the evidence.
# Anything that does not match exactly (item not found, anchor lost or ambiguous, loop count changed, rule
# pattern not found) raises RsxError => the unit is UNDECIDED (exit 2), never a violation.
import re, os


class RsxError(Exception):
    pass


# ------------------------------------------------------------------------------------------------ lexer
def tokenize(src):
    """-> list of (kind, start, end); kinds: ws lc bc str chr life id num p"""
    toks = []
    i, n = 0, len(src)
    idstart = re.compile(r"[A-Za-z_]")
    idchar = re.compile(r"[A-Za-z0-9_]")
    while i < n:
        c = src[i]
        if c in " \t\r\n":
            j = i + 1
            while j < n and src[j] in " \t\r\n":
                j += 1
            toks.append(("ws", i, j))
        elif src.startswith("//", i):
            j = src.find("\n", i)
            j = n if j < 0 else j
            toks.append(("lc", i, j))
        elif src.startswith("/*", i):
            depth, j = 1, i + 2
            while j < n and depth:
                if src.startswith("/*", j):
                    depth += 1
                    j += 2
                elif src.startswith("*/", j):
                    depth -= 1
                    j += 2
                else:
                    j += 1
            toks.append(("bc", i, j))
        elif c == '"' or (c in "br" and re.match(r'(b?r#*"|b")', src[i:i + 8])):
            m = re.match(r'b?r(#*)"', src[i:])
            if m:
                hashes = m.group(1)
                end = src.find('"' + hashes, i + len(m.group(0)))
                if end < 0:
                    raise RsxError("unterminated raw string")
                j = end + 1 + len(hashes)
            else:
                j = i + (2 if c == "b" else 1)
                while j < n and src[j] != '"':
                    j += 2 if src[j] == "\\" else 1
                j += 1
            toks.append(("str", i, j))
        elif c == "'":
            # char literal or lifetime
            if i + 2 < n and src[i + 1] == "\\":
                j = i + 2
                while j < n and src[j] != "'":
                    j += 1
                toks.append(("chr", i, j + 1))
                j += 1
            elif i + 2 < n and src[i + 2] == "'":
                j = i + 3
                toks.append(("chr", i, j))
            else:
                j = i + 1
                while j < n and idchar.match(src[j]):
                    j += 1
                toks.append(("life", i, j))
        elif idstart.match(c):
            j = i + 1
            while j < n and idchar.match(src[j]):
                j += 1
            # raw identifier r#type
            if src[i:j] == "r" and j < n and src[j] == "#" and j + 1 < n and idstart.match(src[j + 1]):
                j += 1
                while j < n and idchar.match(src[j]):
                    j += 1
            toks.append(("id", i, j))
        elif c.isdigit():
            j = i + 1
            while j < n and (idchar.match(src[j]) or (src[j] == "." and j + 1 < n and src[j + 1].isdigit())):
                j += 1
            toks.append(("num", i, j))
        else:
            j = i + 1
            toks.append(("p", i, j))
        i = j
    return toks


OPEN = {"(": ")", "[": "]", "{": "}"}
CLOSE = {")", "]", "}"}


class Src:
    def __init__(self, text, name):
        self.text = text
        self.name = name
        self.toks = tokenize(text)
        # matching brackets
        self.match = {}
        st = []
        for k, (kind, a, b) in enumerate(self.toks):
            if kind != "p":
                continue
            ch = text[a]
            if ch in OPEN:
                st.append(k)
            elif ch in CLOSE:
                if not st:
                    raise RsxError("%s: unbalanced bracket at offset %d" % (name, a))
                o = st.pop()
                self.match[o] = k
                self.match[k] = o
        if st:
            raise RsxError("%s: unbalanced bracket" % name)

    def t(self, k):
        kind, a, b = self.toks[k]
        return self.text[a:b]

    def line_of(self, off):
        return self.text.count("\n", 0, off) + 1

    def sig(self, k):
        # significant token?
        return self.toks[k][0] not in ("ws", "lc", "bc")

    def next_sig(self, k, hi):
        k += 1
        while k < hi and not self.sig(k):
            k += 1
        return k

    # ---------------------------------------------------------------------------------------- item search
    def find_path(self, path):
        """path: list like ['impl H263State', 'fn get_last_picture'] -> (tok_start, tok_kw, tok_end_inclusive)"""
        lo, hi = 0, len(self.toks)
        res = None
        for n, elem in enumerate(path):
            res = self._find_in(elem, lo, hi)
            if res is None:
                raise RsxError("%s: item `%s` not found (path %s)" % (self.name, elem, " / ".join(path)))
            s, kw, e = res
            if n + 1 < len(path):
                # descend into the braces of this item
                if self.t(e) != "}":
                    raise RsxError("%s: `%s` has no body to descend into" % (self.name, elem))
                lo, hi = self.match[e] + 1, e
        return res

    def _find_in(self, elem, lo, hi):
        parts = elem.split(None, 1)
        kw = parts[0]
        want = parts[1].strip() if len(parts) > 1 else ""
        k = lo
        found = []
        while k < hi:
            kind, a, b = self.toks[k]
            if kind == "p" and self.text[a] in OPEN:
                # skip nested group unless it is an item body we look inside? (only depth 0 items are candidates)
                k = self.match[k] + 1
                continue
            if kind == "id" and self.text[a:b] == kw:
                if kw == "impl":
                    # header up to the `{`
                    j = k
                    while j < hi and not (self.toks[j][0] == "p" and self.text[self.toks[j][1]] == "{"):
                        if self.toks[j][0] == "p" and self.text[self.toks[j][1]] in "([":
                            j = self.match[j]
                        j += 1
                    hdr = norm(self.text[self.toks[k][2]:self.toks[j][1]])
                    hdr = re.sub(r"\bwhere\b.*$", "", hdr).strip()
                    hdr_nogen = re.sub(r"^<[^>]*>\s*", "", hdr)
                    if norm(want) in (hdr, hdr_nogen):
                        found.append((k, j))
                else:
                    j = self.next_sig(k, hi)
                    if j < hi and self.toks[j][0] == "id" and self.t(j) == want:
                        found.append((k, j))
            k += 1
        if not found:
            return None
        if len(found) > 1:
            raise RsxError("%s: `%s` is ambiguous (%d matches)" % (self.name, elem, len(found)))
        k, j = found[0]
        # extent: end
        if kw in ("const", "static", "type", "use"):
            e = k
            while e < hi and not (self.toks[e][0] == "p" and self.text[self.toks[e][1]] == ";"):
                if self.toks[e][0] == "p" and self.text[self.toks[e][1]] in OPEN:
                    e = self.match[e]
                e += 1
        else:
            e = j
            while e < hi:
                if self.toks[e][0] == "p":
                    ch = self.text[self.toks[e][1]]
                    if ch == "{":
                        e = self.match[e]
                        break
                    if ch == ";":
                        break
                    if ch in "([":
                        e = self.match[e]
                e += 1
        # extent: start (attributes, doc comments, visibility, qualifiers)
        s = k
        p = k - 1
        while p >= lo:
            kind, a, b = self.toks[p]
            txt = self.text[a:b]
            if kind in ("ws", "lc", "bc"):
                p -= 1
                continue
            if kind == "id" and txt in ("pub", "unsafe", "async", "extern", "default") or (kind == "id" and txt == "const" and kw == "fn"):
                s = p
                p -= 1
                continue
            if kind == "str" and p - 1 >= lo and self.t(p - 1) == "extern":
                p -= 1
                continue
            if kind == "p" and txt == ")" and self.match[p] - 1 >= lo and self.t(self.match[p] - 1) == "pub":
                s = self.match[p] - 1
                p = s - 1
                continue
            if kind == "p" and txt == "]":
                o = self.match[p]
                q = o - 1
                if q >= lo and self.t(q) == "#":
                    s = q
                    p = q - 1
                    continue
                if q - 1 >= lo and self.t(q) == "!" and self.t(q - 1) == "#":
                    break
            break
        # include doc comments directly above
        q = s - 1
        first = s
        while q >= lo and self.toks[q][0] in ("ws", "lc", "bc"):
            if self.toks[q][0] == "lc" and self.t(q).startswith("///"):
                first = q
            elif self.toks[q][0] == "lc" or self.toks[q][0] == "bc":
                # ordinary comment: keep scanning upward only through comments that are adjacent
                pass
            q -= 1
        return (first, k, e)


def norm(s):
    return re.sub(r"\s+", " ", s).strip()


# ------------------------------------------------------------------------------------------------ pieces
class Piece:
    """a run of output text with its origin"""

    def __init__(self, text, origin):
        self.text = text
        self.origin = origin  # ('repo', file, first_line) | ('overlay', file, first_line) | ('gen', what, 0)


def strip_attrs_and_vis(src, s, kw):
    """R0 on the item prefix tokens [s, kw): drop #[...] attributes and pub / pub(..); keep comments"""
    out = []
    k = s
    dropped = []
    while k < kw:
        kind, a, b = src.toks[k]
        txt = src.text[a:b]
        if kind == "p" and txt == "#":
            j = src.next_sig(k, kw)
            if j < kw and src.t(j) == "[":
                attr = norm(src.text[a:src.toks[src.match[j]][2]])
                dm = re.match(r"#\[derive\((.*)\)\]$", attr)
                if dm:
                    keep = [x.strip() for x in dm.group(1).split(",") if x.strip() in ("Copy", "Clone", "PartialEq", "Eq")]
                    drop = [x.strip() for x in dm.group(1).split(",") if x.strip() and x.strip() not in keep]
                    if keep:
                        out.append("#[derive(" + ", ".join(keep) + ")]")
                    if drop:
                        dropped.append("derive(" + ", ".join(drop) + ")")
                else:
                    dropped.append(attr)
                k = src.match[j] + 1
                continue
        if kind == "id" and txt == "pub":
            j = src.next_sig(k, kw + 1)
            if j <= kw and src.t(j) == "(":
                k = src.match[j] + 1
            else:
                k += 1
            dropped.append("pub")
            continue
        out.append(txt)
        k += 1
    return "".join(out), dropped


class Woven:
    def __init__(self):
        self.pieces = []
        self.notes = []  # extraction notes for the evidence (rules fired, substitutions, dropped attrs)
        self.drift_soft = []  # a front-end workaround (subst / rule) found nothing to rewrite: the text is verified as it stands
        self.drift_hard = []  # a proof hint (loop invariant, proof block) could not be placed: a failure of this function is no verdict
        self.hash_src = ""

    def add(self, text, origin):
        if text:
            self.pieces.append(Piece(text, origin))


def extract_verbatim(src, path, relfile, keep_pub=False, subst=None):
    """struct / enum / const / type / whole fn, text copied token-exact (R0: attributes + visibility dropped)"""
    s, kw, e = src.find_path(path)
    w = Woven()
    pre, dropped = strip_attrs_and_vis(src, s, kw)
    a = src.toks[kw][1]
    b = src.toks[e][2]
    body = src.text[a:b]
    w.hash_src = src.text[src.toks[s][1]:b]
    # field visibility inside struct bodies
    body2 = re.sub(r"\bpub(\s*\([^)]*\))?\s+", "", body) if not keep_pub else body
    body3 = re.sub(r"(?m)^\s*#\[[^\]\n]*\]\s*\n", "", body2)
    if body3 != body2:
        dropped.append("inner attributes")
    body2 = body3
    if body2 != body:
        dropped.append("pub (fields)")
    for (x, y, cnt) in (subst or []):
        if body2.count(x) != cnt:
            w.drift_soft.append("subst `%s` expected %d occurrence(s), found %d in %s" % (x, cnt, body2.count(x), " / ".join(path)))
        body2 = body2.replace(x, y)
        w.notes.append("subst `%s` => `%s`" % (x, y))
    line = src.line_of(src.toks[s][1])
    w.add(pre + body2 + "\n", ("repo", relfile, line))
    if dropped:
        w.notes.append("R0 dropped: " + ", ".join(sorted(set(dropped))))
    return w


# ------------------------------------------------------------------------------------------------ rewrite rules
def rule_R1(body):
    """for (I, V) in (A..B).enumerate() { S }  =>  { let mut I: usize = 0; for V in A..B { S; I += 1; } }   (refused if S has `continue`)"""
    pat = re.compile(r"for \((\w+), (\w+)\) in \(([^()]*(?:\([^()]*\))?[^()]*)\)\.enumerate\(\) \{")
    n = 0
    while True:
        m = pat.search(body)
        if not m:
            break
        i_name, v_name, rng = m.group(1), m.group(2), m.group(3)
        ob = m.end() - 1
        cb = match_brace(body, ob)
        inner = body[ob + 1:cb]
        if re.search(r"\bcontinue\b", inner):
            raise RsxError("R1 refused: loop body contains `continue`")
        indent = re.search(r"[ \t]*$", body[:m.start()]).group(0)
        new = ("{ let mut %s: usize = 0; for %s in %s {" % (i_name, v_name, rng)) + inner.rstrip() + "\n" + indent + "    %s += 1;\n" % i_name + indent + "} }"
        body = body[:m.start()] + new + body[cb + 1:]
        n += 1
    return body, n


def rule_R3(body):
    """for (I, V) in E.iter_mut().enumerate() { S }  =>  for I in 0..E.len() { S[*V := E[I], V := E[I]] }   (V is the only access path to E's
    element inside S; refused if S mentions E itself)"""
    pat = re.compile(r"for \((\w+), (\w+)\) in (\w+)\.iter_mut\(\)\.enumerate\(\) \{")
    n = 0
    while True:
        m = pat.search(body)
        if not m:
            break
        i, v, e = m.groups()
        ob = m.end() - 1
        cb = match_brace(body, ob)
        inner = body[ob + 1:cb]
        if re.search(r"\b%s\b" % re.escape(e), inner):
            raise RsxError("R3 refused: loop body mentions `%s`" % e)
        inner2 = re.sub(r"\*\s*%s\b" % re.escape(v), "%s[%s]" % (e, i), inner)
        inner2 = re.sub(r"\b%s\b" % re.escape(v), "%s[%s]" % (e, i), inner2)
        body = body[:m.start()] + ("for %s in 0..%s.len() {" % (i, e)) + inner2 + body[cb:]
        n += 1
    return body, n


def rule_R10(body):
    """for V in A..B { S }  with a `continue` directly in S  =>
       { let mut verif_it_V = A; let verif_end_V = B; while verif_it_V < verif_end_V { let V = verif_it_V; verif_it_V += 1; S } }
       (Verus has no `continue` in for-loops; the increment is done before S, so `continue` keeps its meaning; A, B are evaluated once, as in `for`)"""
    pat = re.compile(r"for (\w+) in ([\w\.\(\)]+?)\.\.([\w\.\(\)]+?) \{")
    n = 0
    pos = 0
    while True:
        m = pat.search(body, pos)
        if not m:
            break
        v, a, b = m.groups()
        ob = m.end() - 1
        cb = match_brace(body, ob)
        inner = body[ob + 1:cb]
        # `continue` that belongs to THIS loop: not inside a nested loop
        depth_free = re.sub(r"\b(for|while|loop)\b[^{]*\{", "\x00{", inner)
        own = False
        k = 0
        while k < len(depth_free):
            if depth_free[k] == "\x00":
                k = match_brace(depth_free, k + 1) + 1
                continue
            if depth_free.startswith("continue", k) and not (depth_free[k - 1].isalnum() or depth_free[k - 1] == "_"):
                own = True
                break
            k += 1
        if not own:
            pos = m.end()
            continue
        new = "{ let mut verif_it_%s = %s; let verif_end_%s = %s; while verif_it_%s < verif_end_%s { let %s = verif_it_%s; verif_it_%s += 1;" % (v, a, v, b, v, v, v, v, v)
        body = body[:m.start()] + new + inner + "} }" + body[cb + 1:]
        n += 1
        pos = m.start() + len(new)
    return body, n


def rule_R8(body):
    """for (I, (A, B)) in X.iter().zip(Y.iter()).enumerate() { S } => for I in 0..min(X.len(), Y.len()) { let A = &X[I]; let B = &Y[I]; S }"""
    pat = re.compile(r"for \((\w+), \((\w+), (\w+)\)\) in (\w+)\.iter\(\)\.zip\((\w+)\.iter\(\)\)\.enumerate\(\) \{")
    m = pat.search(body)
    if not m:
        return body, 0
    i, a, b, x, y = m.groups()
    new = "for %s in 0..(if %s.len() < %s.len() { %s.len() } else { %s.len() }) { let %s = &%s[%s]; let %s = &%s[%s];" % (i, x, y, x, y, a, x, i, b, y, i)
    return body[:m.start()] + new + body[m.end():], 1


def rule_R4(body):
    """if let Some([a, b, c]) = E {  =>  if let Some(verif_t) = E { let a = verif_t[0]; let b = verif_t[1]; let c = verif_t[2];"""
    pat = re.compile(r"if let Some\(\[(\w+), (\w+), (\w+)\]\) = (\w+) \{")
    m = pat.search(body)
    if not m:
        return body, 0
    a, b, c, e = m.groups()
    new = "if let Some(verif_t) = %s { let %s = verif_t[0]; let %s = verif_t[1]; let %s = verif_t[2];" % (e, a, b, c)
    return body[:m.start()] + new + body[m.end():], 1


def rule_R7(body):
    """O\n.and_then(|x| E);  =>  match O { Some(x) => E, None => None };   (E closed: single call expression)"""
    pat = re.compile(r"= (self\s*\.\s*\w+)\s*\.and_then\(\|(\w+)\| ([^;]*)\);", re.S)
    n = 0
    while True:
        m = pat.search(body)
        if not m:
            break
        o, x, e = m.groups()
        new = "= match %s { Some(%s) => %s, None => None };" % (norm(o).replace(" ", ""), x, e)
        body = body[:m.start()] + new + body[m.end():]
        n += 1
    return body, n


def rule_R2(body):
    """for (I, V) in E.iter().take(N).enumerate() {S} => for I in 0..(if N < E.len() {N} else {E.len()}) { let V = &E[I]; S }"""
    pat = re.compile(r"for \((\w+), (\w+)\) in ([\w\[\]\.]+?)\.iter\(\)\.take\((\w+)\)\.enumerate\(\) \{")
    n = 0
    while True:
        m = pat.search(body)
        if not m:
            break
        i, v, e, cnt = m.groups()
        new = "for %s in 0..(if %s < %s.len() { %s } else { %s.len() }) { let %s = &%s[%s];" % (i, cnt, e, cnt, e, v, e, i)
        body = body[:m.start()] + new + body[m.end():]
        n += 1
    return body, n


def rule_R11(body):
    """match arm `P1 | P2 if G => E,` (one line) => two arms `P1 if G => E,` `P2 if G => E,` (Verus rejects or-pattern + guard)"""
    pat = re.compile(r"(?m)^([ \t]*)(\w+) \| (\w+) if ([^=\n]+(?:==[^=\n]+)?) => ([^\n]*),[ \t]*$")
    n = 0
    while True:
        m = pat.search(body)
        if not m:
            break
        ind, p1, p2, g, e = m.groups()
        new = "%s%s if %s => %s,\n%s%s if %s => %s," % (ind, p1, g, e, ind, p2, g, e)
        body = body[:m.start()] + new + body[m.end():]
        n += 1
    return body, n


def rule_R9(body):
    """X.get(I).map(|m| B).unwrap_or(D)  =>  (match X.get(I) { Some(m) => B, None => D })   (beta-reduction of Option::map / unwrap_or)"""
    pat = re.compile(r"(\w+)\s*\.get\(([^()]*)\)\s*\.map\(\|(\w+)\| ([^()|]*)\)\s*\.unwrap_or\((\w+)\)")
    n = 0
    while True:
        m = pat.search(body)
        if not m:
            break
        x, i, v, b, d = m.groups()
        new = "(match %s.get(%s) { Some(%s) => %s, None => %s })" % (x, i, v, b, d)
        body = body[:m.start()] + new + body[m.end():]
        n += 1
    return body, n


def rule_R12(body):
    """X |= E;  =>  X = X | E;   (compound assignment on the Copy bitflags types; same result by the bitflags model, cross-checked by Kani)"""
    pat = re.compile(r"(?m)^([ \t]*)(\w+) \|= ([^;\n]+);")
    n = len(pat.findall(body))
    body = pat.sub(lambda m: "%s%s = %s | %s;" % (m.group(1), m.group(2), m.group(2), m.group(3)), body)
    return body, n


RULES = {"R10": rule_R10, "R3": rule_R3, "R12": rule_R12, "R9": rule_R9, "R11": rule_R11, "R1": rule_R1, "R2": rule_R2, "R4": rule_R4, "R7": rule_R7, "R8": rule_R8}


def rule_R13(body):
    """`for V in X.iter().skip(N) {` -> index loop over X from N (V bound by value: the element type is Copy)"""
    pat = re.compile(r"for\s+(\w+)\s+in\s+([\w\.]+)\.iter\(\)\.skip\((\w+)\)\s*\{")
    n = len(pat.findall(body))
    body = pat.sub(lambda m: "let mut verif_i = %s;\n        while verif_i < %s.len() {\n            let %s = %s[verif_i];\n            verif_i += 1;" % (m.group(3), m.group(2), m.group(1), m.group(2)), body)
    return body, n


RULES["R13"] = rule_R13


def match_brace(text, ob):
    """index of the `}` matching text[ob] == '{' (lexer-aware)"""
    toks = tokenize(text)
    depth = 0
    for kind, a, b in toks:
        if kind != "p":
            continue
        ch = text[a]
        if a < ob:
            continue
        if ch == "{":
            depth += 1
        elif ch == "}":
            depth -= 1
            if depth == 0:
                return a
    raise RsxError("unbalanced braces in rewrite")


# ------------------------------------------------------------------------------------------------ weaving a fn
def weave_fn(src, path, relfile, spec):
    """spec keys: ret (name), contract (text), loops {n: text}, before [(snippet, text, ordinal)], after [...],
    rules [names], subst [(old, new, count)], rename (new fn name), lift (R5 mode), external_body (bool)"""
    s, kw, e = src.find_path(path)
    if src.t(e) != "}":
        raise RsxError("%s: %s has no body" % (relfile, " / ".join(path)))
    w = Woven()
    pre, dropped = strip_attrs_and_vis(src, s, kw)
    ob = src.match[e]
    sig = src.text[src.toks[kw][1]:src.toks[ob][1]]
    body = src.text[src.toks[ob][1]:src.toks[e][2]]
    w.hash_src = src.text[src.toks[s][1]:src.toks[e][2]]
    sig_line = src.line_of(src.toks[kw][1])
    body_line = src.line_of(src.toks[ob][1])
    if dropped:
        w.notes.append("R0 dropped: " + ", ".join(sorted(set(dropped))))

    # --- signature: name the return value
    if spec.get("ret"):
        m = re.search(r"->\s*", sig)
        if not m:
            raise RsxError("%s: `ret` given but %s returns nothing" % (relfile, path[-1]))
        rest = sig[m.end():]
        wm = re.search(r"\bwhere\b", rest)
        ty = rest[:wm.start()] if wm else rest
        tail = rest[wm.start():] if wm else ""
        sig = sig[:m.start()] + "-> (" + spec["ret"] + ": " + ty.strip() + ")" + ("\n" + tail if tail else " ")
    if spec.get("rename"):
        sig = re.sub(r"^fn\s+\w+", "fn " + spec["rename"], sig, count=1)
        w.notes.append("renamed to " + spec["rename"])
    for (x, y, cnt) in spec.get("sig_subst", []):
        if sig.count(x) != cnt:
            w.drift_soft.append("sig_subst `%s` expected %d, found %d" % (x, cnt, sig.count(x)))
        sig = sig.replace(x, y)
        w.notes.append("sig_subst `%s` => `%s`" % (x, y))

    # --- monomorphisation: a generic function is verified per instantiation (type parameter -> concrete type, name suffixed)
    if spec.get("mono"):
        tp, ty = spec["mono"]
        def inst(t):
            # `T::f` becomes a fully qualified call of the stand-in trait that declares f (an inherent method of the same name must not win)
            t = re.sub(r"\b%s::(\w+)" % re.escape(tp), lambda m: "<%s as %s>::%s" % (ty, "BitReadable" if m.group(1) in ("bit_width", "is_signed", "as_int") else "VZero", m.group(1)), t)
            return re.sub(r"\b%s\b" % re.escape(tp), ty, t).replace("__T__", ty)
        sig = re.sub(r"<\s*%s\s*:\s*\w+\s*>" % re.escape(tp), "", sig, count=1)
        sig = inst(sig)
        sig = re.sub(r"^fn\s+(\w+)", lambda m: "fn %s_%s" % (m.group(1), ty), sig, count=1)
        body = inst(body)
        spec = dict(spec)
        if spec.get("contract"):
            spec["contract"] = (inst(spec["contract"][0]), spec["contract"][1])
        spec["loops"] = {k: (inst(v[0]), v[1]) for k, v in (spec.get("loops") or {}).items()}
        for kind in ("before", "after"):
            spec[kind] = [(inst(sn), inst(tx), od, ol) for (sn, tx, od, ol) in spec.get(kind, [])]
        spec["subst"] = [(inst(x), inst(y), c) for (x, y, c) in spec.get("subst", [])]
        w.notes.append("monomorphised: %s := %s (generic function verified per instantiation)" % (tp, ty))

    # --- body: rewrite rules and substitutions first (they are pure text -> text), then anchors
    for r in spec.get("rules", []):
        body, n = RULES[r](body)
        if n == 0:
            w.drift_soft.append("rule %s did not match in %s" % (r, path[-1]))
        w.notes.append("%s x%d" % (r, n))
    for (x, y, cnt) in spec.get("subst", []):
        if body.count(x) != cnt:
            w.drift_soft.append("subst `%s` expected %d occurrence(s), found %d in %s" % (x, cnt, body.count(x), path[-1]))
        body = body.replace(x, y)
        w.notes.append("subst `%s` => `%s`" % (x, y))

    inserts = []  # (offset in body, text, overlay line)
    # loops by ordinal
    if spec.get("loops") is not None:
        toks = tokenize(body)
        loop_pos = []
        for k, (kind, a, b) in enumerate(toks):
            if kind == "id" and body[a:b] in ("for", "while", "loop"):
                # `for` in `impl X for Y` / HRTB cannot occur inside a body; ok
                # find the block `{` at paren depth 0
                depth = 0
                j = k + 1
                pos = None
                while j < len(toks):
                    kk, aa, bb = toks[j]
                    if kk == "p":
                        ch = body[aa]
                        if ch in "([":
                            depth += 1
                        elif ch in ")]":
                            depth -= 1
                        elif ch == "{" and depth == 0:
                            pos = aa
                            break
                    j += 1
                if pos is None:
                    raise RsxError("%s: loop without block in %s" % (relfile, path[-1]))
                loop_pos.append(pos)
        want = spec.get("loop_count")
        loops_ok = True
        if want is not None and want != len(loop_pos):
            w.drift_hard.append("%s has %d loops, overlay expects %d (code changed shape): loop invariants not placed" % (path[-1], len(loop_pos), want))
            loops_ok = False
        for n, (text, oline) in (spec["loops"].items() if loops_ok else []):
            if n < 1 or n > len(loop_pos):
                w.drift_hard.append("%s has %d loops, overlay annotates loop %d: invariant not placed" % (path[-1], len(loop_pos), n))
                continue
            inserts.append((loop_pos[n - 1], "\n" + text.rstrip("\n") + "\n", oline, "loop"))
    for kind in ("before", "after"):
        for (snippet, text, ordinal, oline) in spec.get(kind, []):
            occ = [m.start() for m in re.finditer(re.escape(snippet), body)]
            if not occ:
                w.drift_hard.append("anchor `%s` lost in %s: proof block not placed" % (snippet, path[-1]))
                continue
            if ordinal is None:
                if len(occ) != 1:
                    w.drift_hard.append("anchor `%s` ambiguous (%d) in %s: proof block not placed" % (snippet, len(occ), path[-1]))
                    continue
                at = occ[0]
            else:
                if ordinal > len(occ):
                    w.drift_hard.append("anchor `%s`#%d lost in %s: proof block not placed" % (snippet, ordinal, path[-1]))
                    continue
                at = occ[ordinal - 1]
            if kind == "before":
                ls = body.rfind("\n", 0, at) + 1
                inserts.append((ls, text.rstrip("\n") + "\n", oline, "stmt"))
            else:
                le = body.find("\n", at + len(snippet))
                le = len(body) if le < 0 else le + 1
                inserts.append((le, text.rstrip("\n") + "\n", oline, "stmt"))

    # --- emit
    w.add(pre, ("repo", relfile, src.line_of(src.toks[s][1])))
    if spec.get("stub"):
        # assumed contract: signature from the repo, body dropped; proved against the same contract text by another unit / by Kani
        w.add("#[verifier::external_body] // LEDGER(assumed contract of %s)\n" % path[-1], ("gen", "stub", 0))
        w.add(sig.rstrip() + "\n", ("repo", relfile, sig_line))
        if spec.get("contract"):
            w.add(spec["contract"][0].rstrip("\n") + "\n", ("overlay", spec.get("contract_file", spec["overlay_file"]), spec["contract"][1]))
        w.add("{ unimplemented!() }\n", ("gen", "stub", 0))
        w.notes.append("STUB: body dropped, contract assumed")
        return w
    if spec.get("external_body"):
        w.add("#[verifier::external_body]\n", ("gen", "external_body", 0))
    for a in spec.get("attrs", []):
        w.add(a + "\n", ("gen", "attr", 0))
    w.add(sig.rstrip() + "\n", ("repo", relfile, sig_line))
    if spec.get("contract"):
        w.add(spec["contract"][0].rstrip("\n") + "\n", ("overlay", spec.get("contract_file", spec["overlay_file"]), spec["contract"][1]))
    inserts.sort(key=lambda t: t[0])
    pos = 0
    cur_line = body_line
    for (off, text, oline, what) in inserts:
        chunk = body[pos:off]
        w.add(chunk, ("repo", relfile, cur_line))
        cur_line += chunk.count("\n")
        w.add(text, ("overlay", spec["overlay_file"], oline))
        pos = off
    w.add(body[pos:] + "\n", ("repo", relfile, cur_line))
    return w


# ------------------------------------------------------------------------------------------------ R5: lambda lifting
LIFT_FNS = {"transaction": "with_transaction", "transaction_union": "with_transaction_union", "lookahead": "with_lookahead"}


def split_params(sig):
    """parameter names of `fn name<..>(a: A, b: B) ...` in order (self for receivers)"""
    m = re.search(r"\(", sig)
    toks = tokenize(sig)
    # find the parameter list parens (first '(' at angle depth 0 after the name)
    depth = 0
    start = None
    for kind, a, b in toks:
        if kind == "p":
            ch = sig[a]
            if ch == "(" and start is None:
                start = a
                depth = 1
                continue
            if start is not None:
                if ch in "([{":
                    depth += 1
                elif ch in ")]}":
                    depth -= 1
                    if depth == 0:
                        end = a
                        break
    inner = sig[start + 1:end]
    names = []
    cur = ""
    d = 0
    for ch in inner:
        if ch in "([{<":
            d += 1
        elif ch in ")]}>":
            d -= 1
        if ch == "," and d == 0:
            names.append(cur)
            cur = ""
        else:
            cur += ch
    if cur.strip():
        names.append(cur)
    out = []
    for n in names:
        n = n.strip()
        if re.match(r"^&?\s*(mut\s+)?self\b", n):
            out.append("self")
        else:
            out.append(re.sub(r"^mut\s+", "", n.split(":")[0].strip()))
    return out, start, end


def weave_lifted(src, path, relfile, spec, reader_src):
    """fn f(..) -> Result<T> { RECV.with_transaction(|P| BODY) }  =>  fn f_body(..) -> Result<T> { BODY }  +  fn f(..) = text of
    with_transaction with `f(self)` replaced by the call of f_body (beta reduction)."""
    kind = spec["lift"]
    hof = LIFT_FNS[kind]
    s, kw, e = src.find_path(path)
    if src.t(e) != "}":
        raise RsxError("%s: %s has no body" % (relfile, path[-1]))
    ob = src.match[e]
    pre, dropped = strip_attrs_and_vis(src, s, kw)
    sig = src.text[src.toks[kw][1]:src.toks[ob][1]]
    body = src.text[src.toks[ob][1] + 1:src.toks[e][1]]
    m = re.match(r"\s*(\w+)\s*\.\s*%s\s*\(\s*\|(\w+)\|\s*" % hof, body)
    if not m:
        raise RsxError("%s: R5 pattern `RECV.%s(|p| ...)` not found in %s" % (relfile, hof, path[-1]))
    recv, cparam = m.group(1), m.group(2)
    rest = body[m.end():]
    # closure body: up to the `)` closing the call; what follows must be whitespace only
    trail = rest.rstrip()
    if not trail.endswith(")"):
        raise RsxError("%s: R5: closure is not the whole body of %s" % (relfile, path[-1]))
    cbody = trail[:-1].rstrip()
    body_off = src.toks[ob][1] + 1 + m.end()  # offset of closure body in the file
    if not cbody.startswith("{"):
        cbody_text = "{\n        " + cbody + "\n    }"
        is_block = False
    else:
        if match_brace(cbody, 0) != len(cbody) - 1:
            raise RsxError("%s: R5: closure block does not span the call in %s" % (relfile, path[-1]))
        cbody_text = cbody
        is_block = True
    name = re.match(r"fn\s+(\w+)", sig).group(1)
    self_alpha = None
    if recv == "self" and cparam != "self":
        # a method `self.with_x(|reader| BODY)`: alpha-rename the closure parameter to `self` (the lifted body is a method too)
        cbody_text = re.sub(r"\b%s\b" % re.escape(cparam), "self", cbody_text)
        self_alpha = cparam
        cparam = "self"
    params, ps, pe = split_params(sig)
    if recv not in params:
        raise RsxError("%s: R5: receiver `%s` is not a parameter of %s" % (relfile, recv, name))
    # --- f_body: same signature, reader parameter renamed to the closure's parameter name
    body_sig = re.sub(r"^fn\s+\w+", "fn " + name + "_body", sig, count=1)
    if cparam != recv:
        body_sig = re.sub(r"\b%s\s*:" % re.escape(recv), cparam + ":", body_sig, count=1)
    # --- f: template from the reader
    ts, tkw, te = reader_src.find_path(["impl H263Reader<R>", "fn " + hof])
    tob = reader_src.match[te]
    templ = reader_src.text[reader_src.toks[tob][1] + 1:reader_src.toks[te][1]]
    if templ.count("f(self)") != 1:
        raise RsxError("reader.rs: %s no longer has the shape `... f(self) ...`" % hof)
    templ = templ.replace("f(self)", "\x00CALL\x00")
    templ = re.sub(r"\bself\b", recv, templ)
    if "self" in params:
        call = "self.%s_body(%s)" % (name, ", ".join(p for p in params if p != "self"))
    else:
        call = "%s_body(%s)" % (name, ", ".join(params))
    templ = templ.replace("\x00CALL\x00", call)

    w = Woven()
    w.hash_src = src.text[src.toks[s][1]:src.toks[e][2]] + templ
    w.notes.append("R5 lambda-lifted over %s (closure parameter `%s`)" % (hof, cparam))
    if self_alpha:
        w.notes.append("R5: closure parameter `%s` alpha-renamed to `self`" % self_alpha)
    if dropped:
        w.notes.append("R0 dropped: " + ", ".join(sorted(set(dropped))))

    def named(sg, ret):
        if not ret:
            return sg
        mm = re.search(r"->\s*", sg)
        rest2 = sg[mm.end():]
        wm = re.search(r"\bwhere\b", rest2)
        ty = rest2[:wm.start()] if wm else rest2
        tail = rest2[wm.start():] if wm else ""
        return sg[:mm.start()] + "-> (" + ret + ": " + ty.strip() + ")" + ("\n" + tail if tail else " ")

    # body-level weaving (rules, substs, loops, anchors) on the closure body
    sub = dict(spec)
    sub_body = cbody_text
    for r in spec.get("rules", []):
        sub_body, n = RULES[r](sub_body)
        if n == 0:
            w.drift_soft.append("rule %s did not match in %s" % (r, name))
        w.notes.append("%s x%d" % (r, n))
    for (x, y, cnt) in spec.get("subst", []):
        if sub_body.count(x) != cnt:
            w.drift_soft.append("subst `%s` expected %d occurrence(s), found %d in %s" % (x, cnt, sub_body.count(x), name))
        sub_body = sub_body.replace(x, y)
        w.notes.append("subst `%s` => `%s`" % (x, y))
    inserts = []
    if spec.get("loops"):
        toks = tokenize(sub_body)
        loop_pos = []
        for k, (kind2, a, b) in enumerate(toks):
            if kind2 == "id" and sub_body[a:b] in ("for", "while", "loop"):
                depth = 0
                j = k + 1
                pos = None
                while j < len(toks):
                    kk, aa, bb = toks[j]
                    if kk == "p":
                        ch = sub_body[aa]
                        if ch in "([":
                            depth += 1
                        elif ch in ")]":
                            depth -= 1
                        elif ch == "{" and depth == 0:
                            pos = aa
                            break
                    j += 1
                loop_pos.append(pos)
        want = spec.get("loop_count")
        loops_ok = True
        if want is not None and want != len(loop_pos):
            w.drift_hard.append("%s has %d loops, overlay expects %d (code changed shape): loop invariants not placed" % (name, len(loop_pos), want))
            loops_ok = False
        for n, (text, oline) in (spec["loops"].items() if loops_ok else []):
            if n < 1 or n > len(loop_pos):
                w.drift_hard.append("%s has %d loops, overlay annotates loop %d: invariant not placed" % (name, len(loop_pos), n))
                continue
            inserts.append((loop_pos[n - 1], "\n" + text.rstrip("\n") + "\n", oline))
    for kind2 in ("before", "after"):
        for (snippet, text, ordinal, oline) in spec.get(kind2, []):
            occ = [mm.start() for mm in re.finditer(re.escape(snippet), sub_body)]
            if not occ:
                w.drift_hard.append("anchor `%s` lost in %s: proof block not placed" % (snippet, name))
                continue
            if ordinal is None:
                if len(occ) != 1:
                    w.drift_hard.append("anchor `%s` ambiguous (%d) in %s: proof block not placed" % (snippet, len(occ), name))
                    continue
                at = occ[0]
            else:
                if ordinal > len(occ):
                    w.drift_hard.append("anchor `%s`#%d lost in %s: proof block not placed" % (snippet, ordinal, name))
                    continue
                at = occ[ordinal - 1]
            if kind2 == "before":
                ls = sub_body.rfind("\n", 0, at) + 1
                inserts.append((ls, text.rstrip("\n") + "\n", oline))
            else:
                le = sub_body.find("\n", at + len(snippet))
                le = len(sub_body) if le < 0 else le + 1
                inserts.append((le, text.rstrip("\n") + "\n", oline))
    line0 = src.line_of(body_off)
    sig_line = src.line_of(src.toks[kw][1])
    # emit f_body
    w.add(pre, ("repo", relfile, src.line_of(src.toks[s][1])))
    for a in spec.get("attrs", []):
        w.add(a + "\n", ("gen", "attr", 0))
    w.add(named(body_sig, spec.get("body_ret")).rstrip() + "\n", ("repo", relfile, sig_line))
    if spec.get("body_contract"):
        w.add(spec["body_contract"][0].rstrip("\n") + "\n", ("overlay", spec["overlay_file"], spec["body_contract"][1]))
    inserts.sort(key=lambda t: t[0])
    pos = 0
    cur_line = line0
    for (off, text, oline) in inserts:
        chunk = sub_body[pos:off]
        w.add(chunk, ("repo", relfile, cur_line))
        cur_line += chunk.count("\n")
        w.add(text, ("overlay", spec["overlay_file"], oline))
        pos = off
    w.add(sub_body[pos:] + "\n", ("repo", relfile, cur_line))
    # emit f
    w.add(named(sig, spec.get("ret")).rstrip() + "\n", ("repo", relfile, sig_line))
    if spec.get("contract"):
        w.add(spec["contract"][0].rstrip("\n") + "\n", ("overlay", spec["overlay_file"], spec["contract"][1]))
    tl = reader_src.line_of(reader_src.toks[tob][1])
    w.add("{" + templ + "}\n", ("repo", "h263/src/parser/reader.rs", tl))
    return w
