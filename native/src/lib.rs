//! Spec-level bit writer and tiny picture encoders used by the native witness probes.
pub struct Bw {
    pub buf: Vec<u8>,
    pub pos: usize,
}
impl Bw {
    pub fn new() -> Self {
        Bw { buf: vec![], pos: 0 }
    }
    pub fn put(&mut self, val: u32, n: usize) {
        for k in 0..n {
            if self.pos / 8 >= self.buf.len() {
                self.buf.push(0);
            }
            let bit = ((val >> (n - 1 - k)) & 1) as u8;
            self.buf[self.pos / 8] |= bit << (7 - (self.pos % 8));
            self.pos += 1;
        }
    }
    pub fn bits(&mut self, s: &str) {
        for c in s.chars() {
            match c {
                '0' => self.put(0, 1),
                '1' => self.put(1, 1),
                _ => {}
            }
        }
    }
    pub fn align(&mut self) {
        while self.pos % 8 != 0 {
            self.put(0, 1);
        }
    }
}
/// Sorenson header, version `ver`, 8-bit custom size; ptype 0=I 1=P 2=disposable P
pub fn sorenson_hdr(bw: &mut Bw, ver: u32, tr: u8, w: u8, h: u8, ptype: u32, q: u32) {
    bw.put(1, 17);
    bw.put(ver, 5);
    bw.put(tr as u32, 8);
    bw.put(0, 3);
    bw.put(w as u32, 8);
    bw.put(h as u32, 8);
    bw.put(ptype, 2);
    bw.put(0, 1);
    bw.put(q, 5);
    bw.put(0, 1);
}
/// I picture macroblock: MCBPC '1' (INTRA, cbpc 00), CBPY '0011' (no luma coded), six INTRADC
pub fn intra_mb_i(bw: &mut Bw, dc: u8) {
    bw.put(1, 1);
    bw.put(0b0011, 4);
    for _ in 0..6 {
        bw.put(dc as u32, 8);
    }
}
/// P picture: COD=0, MCBPC '1' (INTER, cbpc 00), CBPY '11' (inter: none coded), MVD 0,0
pub fn inter_mb_p(bw: &mut Bw) {
    bw.put(0, 1);
    bw.put(1, 1);
    bw.put(0b11, 2);
    bw.put(1, 1);
    bw.put(1, 1);
}
pub fn uncoded_p(bw: &mut Bw) {
    bw.put(1, 1);
}
/// a whole Sorenson I picture w x h (multiples of 16 up) with constant INTRADC
pub fn sorenson_i(tr: u8, w: u8, h: u8, dc: u8) -> Vec<u8> {
    let mut bw = Bw::new();
    sorenson_hdr(&mut bw, 0, tr, w, h, 0, 5);
    let n = ((w as usize + 15) / 16) * ((h as usize + 15) / 16);
    for _ in 0..n {
        intra_mb_i(&mut bw, dc);
    }
    bw.align();
    bw.buf
}
/// a whole Sorenson P / disposable picture with all-zero-vector inter macroblocks
pub fn sorenson_p(tr: u8, w: u8, h: u8, disposable: bool) -> Vec<u8> {
    let mut bw = Bw::new();
    sorenson_hdr(&mut bw, 0, tr, w, h, if disposable { 2 } else { 1 }, 5);
    let n = ((w as usize + 15) / 16) * ((h as usize + 15) / 16);
    for _ in 0..n {
        inter_mb_p(&mut bw);
    }
    bw.align();
    bw.buf
}
