use h263_rs::{DecoderOption, H263State};
use h263_rs::parser::H263Reader;
struct Bw { buf: Vec<u8>, pos: usize }
impl Bw {
    fn new() -> Self { Bw { buf: vec![], pos: 0 } }
    fn put(&mut self, val: u32, n: usize) {
        for k in 0..n {
            if self.pos / 8 >= self.buf.len() { self.buf.push(0); }
            let bit = ((val >> (n - 1 - k)) & 1) as u8;
            self.buf[self.pos / 8] |= bit << (7 - (self.pos % 8));
            self.pos += 1;
        }
    }
    fn umv(&mut self, v: i32) {
        if v == 0 { self.put(1, 1); return; }
        self.put(0, 1);
        let a = v.unsigned_abs();
        let k = 31 - a.leading_zeros();
        for i in (0..k).rev() { self.put((a >> i) & 1, 1); self.put(1, 1); }
        self.put(if v < 0 { 1 } else { 0 }, 1); self.put(0, 1);
    }
}
fn plus_header(bw: &mut Bw, tr: u32, ptype_code: u32, umv: bool, w: u32, h: u32) {
    bw.put(1, 17); bw.put(0, 5);
    bw.put(tr, 8);
    bw.put(0b10000111, 8);
    bw.put(1, 3);
    let mut o = 0u32; o |= 6 << 15; if umv { o |= 1 << 13; } o |= 0b1000;
    bw.put(o, 18);
    bw.put((ptype_code << 6) | 1, 9);
    bw.put(0, 1);
    bw.put((1 << 19) | ((w / 4 - 1) << 10) | (1 << 9) | (h / 4), 23);
    if umv { bw.put(1, 1); }
    bw.put(5, 5);
    bw.put(0, 1);
}
fn run(nmb: u32, mvd: i32) -> String {
    let w = 16 * nmb;
    let mut st = H263State::new(DecoderOption::empty());
    let mut i = Bw::new(); plus_header(&mut i, 0, 0, false, w, 16);
    for _ in 0..nmb { i.put(1, 1); i.put(0b0011, 4); for _ in 0..6 { i.put(100, 8); } }
    while i.pos % 8 != 0 { i.put(0, 1); }
    let mut rd = H263Reader::from_source(&i.buf[..]);
    let r1 = st.decode_next_picture(&mut rd).map_err(|e| format!("{:?}", e));
    let mut p = Bw::new(); plus_header(&mut p, 1, 1, true, w, 16);
    for _ in 0..nmb { p.put(0, 1); p.put(1, 1); p.put(0b11, 2); p.umv(mvd); p.umv(0); }
    while p.pos % 8 != 0 { p.put(0, 1); }
    let mut rd = H263Reader::from_source(&p.buf[..]);
    let r = std::panic::catch_unwind(std::panic::AssertUnwindSafe(|| st.decode_next_picture(&mut rd)));
    let s = match r { Err(_) => "PANIC".to_string(), Ok(Ok(())) => "ok".into(), Ok(Err(e)) => format!("err({:?})", e) };
    format!("I: {:?}; P({} MBs, mvd {}): {}", r1, nmb, mvd, s)
}
#[test]
fn d12() {
    println!("D12 {}", run(2, 10));
    println!("D12 {}", run(3, 4095));
    println!("D12 {}", run(10, 4095));
}
