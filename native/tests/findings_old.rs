// Public-API reproduction of findings D4-D7, D10, D11 on the unchanged tree (see ../DESIGN.md section 5).
// Observed output on the pinned commit:
//   D4 zero width I: PANIC            (state.rs:200, remainder by zero)
//   D7 zero height I: PANIC           (rle.rs:90)
//   D5 2 MBs in 16x16 I: PANIC        (rle.rs:90)
//   D6 P16 after I32: PANIC           (gather.rs:77)      D6b P32 after I16: ok
//   D10 disposable coded MB: err(UnimplementedDecoding)   D10b disposable uncoded MB: err(UnimplementedDecoding)
//   D11 concat first: Err("InvalidMacroblockHeader")
//   P no reference: err(UncodedIFrameBlocks)
use h263_rs::parser::H263Reader;
use h263_rs::{DecoderOption, H263State};

struct Bw {
    buf: Vec<u8>,
    pos: usize,
}
impl Bw {
    fn new() -> Self {
        Bw { buf: vec![], pos: 0 }
    }
    fn put(&mut self, val: u32, n: usize) {
        for k in 0..n {
            if self.pos / 8 >= self.buf.len() {
                self.buf.push(0);
            }
            let bit = ((val >> (n - 1 - k)) & 1) as u8;
            self.buf[self.pos / 8] |= bit << (7 - (self.pos % 8));
            self.pos += 1;
        }
    }
    fn align(&mut self) {
        while self.pos % 8 != 0 {
            self.put(0, 1);
        }
    }
}
// Sorenson header, version 0, 8-bit custom size; ptype 0=I 1=P 2=disposable P
fn hdr(bw: &mut Bw, tr: u8, w: u8, h: u8, ptype: u32, q: u32) {
    bw.put(1, 17);
    bw.put(0, 5);
    bw.put(tr as u32, 8);
    bw.put(0, 3);
    bw.put(w as u32, 8);
    bw.put(h as u32, 8);
    bw.put(ptype, 2);
    bw.put(0, 1);
    bw.put(q, 5);
    bw.put(0, 1);
}
// I picture macroblock: MCBPC '1' (INTRA, cbpc 00), CBPY '0011' (no luma coded), six INTRADC
fn intra_mb_i(bw: &mut Bw, dc: u8) {
    bw.put(1, 1);
    bw.put(0b0011, 4);
    for _ in 0..6 {
        bw.put(dc as u32, 8);
    }
}
// P picture: COD=0, MCBPC '1' (INTER, cbpc 00), CBPY '11' (inter: none coded), MVD 0,0
fn inter_mb_p(bw: &mut Bw) {
    bw.put(0, 1);
    bw.put(1, 1);
    bw.put(0b11, 2);
    bw.put(1, 1);
    bw.put(1, 1);
}
fn uncoded_p(bw: &mut Bw) {
    bw.put(1, 1);
}

fn try_decode(st: &mut H263State, data: &[u8]) -> String {
    let mut rd = H263Reader::from_source(data);
    let r = std::panic::catch_unwind(std::panic::AssertUnwindSafe(|| st.decode_next_picture(&mut rd)));
    match r {
        Err(_) => "PANIC".into(),
        Ok(Ok(())) => "ok".into(),
        Ok(Err(e)) => format!("err({:?})", e),
    }
}

#[test]
fn findings() {
    let sor = DecoderOption::SORENSON_SPARK_BITSTREAM;
    {
        let mut bw = Bw::new();
        hdr(&mut bw, 0, 0, 16, 0, 5);
        intra_mb_i(&mut bw, 100);
        bw.align();
        println!("D4 zero width I: {}", try_decode(&mut H263State::new(sor), &bw.buf));
    }
    {
        let mut bw = Bw::new();
        hdr(&mut bw, 0, 16, 0, 0, 5);
        intra_mb_i(&mut bw, 100);
        bw.align();
        println!("D7 zero height I: {}", try_decode(&mut H263State::new(sor), &bw.buf));
    }
    {
        let mut bw = Bw::new();
        hdr(&mut bw, 0, 16, 16, 0, 5);
        intra_mb_i(&mut bw, 100);
        intra_mb_i(&mut bw, 100);
        bw.align();
        println!("D5 2 MBs in 16x16 I: {}", try_decode(&mut H263State::new(sor), &bw.buf));
    }
    let mut i16 = Bw::new();
    hdr(&mut i16, 0, 16, 16, 0, 5);
    intra_mb_i(&mut i16, 100);
    i16.align();
    let mut i32 = Bw::new();
    hdr(&mut i32, 0, 32, 32, 0, 5);
    for _ in 0..4 {
        intra_mb_i(&mut i32, 100);
    }
    i32.align();
    {
        let mut st = H263State::new(sor);
        println!("I32: {}", try_decode(&mut st, &i32.buf));
        let mut bw = Bw::new();
        hdr(&mut bw, 1, 16, 16, 1, 5);
        inter_mb_p(&mut bw);
        bw.align();
        println!("D6 P16 after I32: {}", try_decode(&mut st, &bw.buf));
    }
    {
        let mut st = H263State::new(sor);
        println!("I16: {}", try_decode(&mut st, &i16.buf));
        let mut bw = Bw::new();
        hdr(&mut bw, 1, 32, 32, 1, 5);
        for _ in 0..4 {
            inter_mb_p(&mut bw);
        }
        bw.align();
        println!("D6b P32 after I16: {}", try_decode(&mut st, &bw.buf));
    }
    {
        let mut st = H263State::new(sor);
        println!("I16: {}", try_decode(&mut st, &i16.buf));
        let mut bw = Bw::new();
        hdr(&mut bw, 1, 16, 16, 2, 5);
        inter_mb_p(&mut bw);
        bw.align();
        println!("D10 disposable coded MB: {}", try_decode(&mut st, &bw.buf));
        let mut bw = Bw::new();
        hdr(&mut bw, 1, 16, 16, 2, 5);
        uncoded_p(&mut bw);
        bw.align();
        println!("D10b disposable uncoded MB: {}", try_decode(&mut st, &bw.buf));
    }
    {
        let mut st = H263State::new(sor);
        let mut both = i16.buf.clone();
        both.extend_from_slice(&i16.buf);
        let mut rd = H263Reader::from_source(&both[..]);
        println!("D11 concat first: {:?}", st.decode_next_picture(&mut rd).map_err(|e| format!("{:?}", e)));
        println!("D11 concat second: {:?}", st.decode_next_picture(&mut rd).map_err(|e| format!("{:?}", e)));
    }
    {
        let mut bw = Bw::new();
        hdr(&mut bw, 1, 16, 16, 1, 5);
        inter_mb_p(&mut bw);
        bw.align();
        println!("P no reference: {}", try_decode(&mut H263State::new(sor), &bw.buf));
    }
}
