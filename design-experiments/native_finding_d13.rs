use h263_rs::DecoderOption;
use h263_rs::parser::{decode_picture, H263Reader};
struct Bw { buf: Vec<u8>, pos: usize }
impl Bw {
    fn new() -> Self { Bw { buf: vec![], pos: 0 } }
    fn put(&mut self, val: u32, n: usize) {
        for k in 0..n {
            if self.pos / 8 >= self.buf.len() { self.buf.push(0); }
            let bit = ((val >> (n - 1 - k)) & 1) as u8;
            self.buf[self.pos / 8] |= bit << (7 - (self.pos % 8));
            self.pos += 1;
        }
    }
}
fn plus_header(ufep1: bool, ptype_code: u32, umv: bool) -> Vec<u8> {
    let mut bw = Bw::new();
    bw.put(1, 17); bw.put(0, 5);      // PSC
    bw.put(7, 8);                      // TR
    bw.put(0b10000111, 8);             // PTYPE: '10', split/doc/freeze 0, format 111 = extended
    if ufep1 {
        bw.put(1, 3);                  // UFEP = 001
        // OPPTYPE 18 bits: fmt(3)=110 custom, PCF 0, UMV, SAC 0, AP 0, AIC 0, DF 0, SS 0, RPS 0, ISD 0, AIV 0, MQ 0, then 1000
        let mut o = 0u32;
        o |= 6 << 15; if umv { o |= 1 << 13; } o |= 0b1000;
        bw.put(o, 18);
    } else { bw.put(0, 3); }
    // MPPTYPE 9 bits: type(3), RPR 0, RRU 0, RTYPE 0, 001
    bw.put((ptype_code << 6) | 1, 9);
    bw.put(0, 1);                      // CPM = 0
    if ufep1 {
        // CPFMT 23 bits: PAR(4)=1, PWI(9)=3, '1', PHI(9)=4
        bw.put((1 << 19) | (3 << 10) | (1 << 9) | 4, 23);
        if umv { bw.put(1, 1); }       // UUI = '1'
    }
    bw.put(5, 5);                      // PQUANT
    bw.put(0, 1);                      // PEI
    while bw.pos % 8 != 0 { bw.put(0, 1); }
    bw.buf
}
#[test]
fn d13() {
    let opts = DecoderOption::empty();
    let h1 = plus_header(true, 0, false);
    let mut r1 = H263Reader::from_source(&h1[..]);
    let p1 = decode_picture(&mut r1, opts, None);
    println!("D13 first (UFEP=1, I, custom 16x16): ok={}", p1.is_ok());
    let p1 = p1.unwrap().unwrap();
    let h2 = plus_header(false, 1, false);
    let mut r2 = H263Reader::from_source(&h2[..]);
    let p2 = decode_picture(&mut r2, opts, Some(&p1));
    println!("D13 second (UFEP=0, P) with previous header: {:?}", p2.as_ref().map(|_| "ok").map_err(|e| format!("{:?}", e)));
    let mut r3 = H263Reader::from_source(&h2[..]);
    let p3 = decode_picture(&mut r3, opts, None);
    println!("D13 second (UFEP=0, P) without previous header: {:?}", p3.as_ref().map(|_| "ok").map_err(|e| format!("{:?}", e)));
}
