#![feature(allocator_api)]
use vstd::prelude::*;
use std::collections::HashMap;
verus! {
pub uninterp spec fn vec_capacity<T, A: core::alloc::Allocator>(v: &Vec<T, A>) -> usize;
pub assume_specification<T, A: core::alloc::Allocator>[Vec::<T, A>::capacity](v: &Vec<T, A>) -> (r: usize)
    ensures r == vec_capacity(v), r >= v.len();

pub enum Error { InternalDecoderError, MiddleOfBitstream, InvalidMacroblockHeader, InvalidMacroblockCodedBits, PictureFormatMissing, PictureFormatInvalid, UncodedIFrameBlocks, UnhandledIoError(bool), UnimplementedDecoding, InvalidGobHeader }
pub type Result<T> = std::result::Result<T, Error>;
impl Error {
    pub fn is_eof_error(&self) -> bool { matches!(self, Error::UnhandledIoError(true)) }
    pub fn is_macroblock_error(&self) -> bool {
        matches!(self, Error::InvalidMacroblockHeader)
            || matches!(self, Error::InvalidMacroblockCodedBits)
    }
    pub fn is_gob_error(&self) -> bool {
        matches!(self, Error::InvalidGobHeader)
    }
}

#[verifier::external_body]
#[verifier::reject_recursive_types(R)]
pub struct H263Reader<R> { r: R }
impl<R> H263Reader<R> {
    #[verifier::external_body]
    pub fn commit(&mut self) {}
}

#[derive(Copy, Clone)]
pub struct PictureOption { bits: u32 }
#[derive(Copy, Clone)]
pub struct DecoderOption { pub bits: u8 }
impl DecoderOption {
    pub const SORENSON_SPARK_BITSTREAM: DecoderOption = DecoderOption { bits: 1 };
    pub fn contains(&self, o: DecoderOption) -> bool { self.bits & o.bits == o.bits }
}

#[derive(Copy, Clone, PartialEq, Debug)]
pub enum SourceFormat { SubQcif, QuarterCif, FullCif, FourCif, SixteenCif, Reserved, Extended(u16, u16) }
impl SourceFormat {
    pub fn into_width_and_height(self) -> Option<(u16, u16)> {
        match self {
            Self::SubQcif => Some((128, 96)),
            Self::QuarterCif => Some((176, 144)),
            Self::FullCif => Some((352, 288)),
            Self::FourCif => Some((704, 576)),
            Self::SixteenCif => Some((1408, 1152)),
            Self::Reserved => None,
            Self::Extended(w, h) => Some((w, h)),
        }
    }
}
#[derive(Copy, Clone, Debug)]
pub enum PictureTypeCode { IFrame, PFrame, PbFrame, ImprovedPbFrame, BFrame, EiFrame, EpFrame, Reserved(u8), DisposablePFrame }
impl PictureTypeCode {
    pub fn is_disposable(self) -> bool {
        matches!(self, Self::DisposablePFrame)
    }
}
pub struct Picture {
    pub temporal_reference: u16,
    pub format: Option<SourceFormat>,
    pub options: PictureOption,
    pub has_plusptype: bool,
    pub has_opptype: bool,
    pub picture_type: PictureTypeCode,
    pub quantizer: u8,
}
#[derive(Copy, Clone, Debug, PartialEq, Eq)]
pub enum MacroblockType { Inter, InterQ, Inter4V, Intra, IntraQ, Inter4Vq }
impl MacroblockType {
    pub fn is_inter(self) -> bool {
        matches!(self, Self::Inter)
            || matches!(self, Self::InterQ)
            || matches!(self, Self::Inter4V)
            || matches!(self, Self::Inter4Vq)
    }
}
#[derive(Copy, Clone, Debug, PartialEq, Eq, PartialOrd, Ord)]
pub struct HalfPel(i16);
#[derive(Copy, Clone, Debug)]
pub struct MotionVector(HalfPel, HalfPel);
impl MotionVector {
    pub fn zero() -> Self { Self(HalfPel(0), HalfPel(0)) }
}
#[derive(Clone, Debug)]
pub struct CodedBlockPattern {
    pub codes_luma: [bool; 4],
    pub codes_chroma_b: bool,
    pub codes_chroma_r: bool,
}
pub enum Macroblock {
    Uncoded,
    Stuffing,
    Coded {
        mb_type: MacroblockType,
        coded_block_pattern: CodedBlockPattern,
        coded_block_pattern_b: Option<CodedBlockPattern>,
        d_quantizer: Option<i8>,
        motion_vector: Option<MotionVector>,
        addl_motion_vectors: Option<[MotionVector; 3]>,
        motion_vectors_b: Option<[MotionVector; 4]>,
    },
}
pub struct GroupOfBlocks { pub group_number: u8, pub multiplex_bitstream: Option<u8>, pub frame_id: u8, pub quantizer: u8 }
pub struct Block { pub x: u8 }
#[derive(Clone, Copy, Debug)]
pub enum DecodedDctBlock { Zero, Dc(f32), Horiz([f32; 8]), Vert([f32; 8]), Full([[f32; 8]; 8]) }

pub struct DecodedPicture {
    pub picture_header: Picture,
    pub format: SourceFormat,
    pub luma: Vec<u8>,
    pub chroma_b: Vec<u8>,
    pub chroma_r: Vec<u8>,
    pub chroma_samples_per_row: usize,
}
impl DecodedPicture {
    #[verifier::external_body]
    pub fn new(picture_header: Picture, format: SourceFormat) -> (r: Option<Self>)
        ensures match r { Some(p) => p.picture_header == picture_header && p.format == format && p.chroma_samples_per_row >= 1, None => true }
    { unimplemented!() }
    pub fn as_header(&self) -> (r: &Picture) ensures *r == self.picture_header { &self.picture_header }
    pub fn format(&self) -> SourceFormat { self.format }
    pub fn as_luma_mut(&mut self) -> &mut [u8] { &mut self.luma }
    pub fn as_chroma_b_mut(&mut self) -> &mut [u8] { &mut self.chroma_b }
    pub fn as_chroma_r_mut(&mut self) -> &mut [u8] { &mut self.chroma_r }
    pub fn chroma_samples_per_row(&self) -> (r: usize) ensures r == self.chroma_samples_per_row { self.chroma_samples_per_row }
}

#[verifier::external_body]
pub fn decode_picture<R>(reader: &mut H263Reader<R>, o: DecoderOption, prev: Option<&Picture>) -> (r: Result<Option<Picture>>)
    ensures match r { Ok(Some(p)) => p.quantizer <= 31, _ => true }
{ unimplemented!() }
#[verifier::external_body]
pub fn decode_macroblock<R>(reader: &mut H263Reader<R>, p: &Picture, o: PictureOption) -> (r: Result<Macroblock>)
    ensures match r { Ok(Macroblock::Coded { d_quantizer, .. }) => match d_quantizer { Some(d) => -2 <= d <= 2, None => true }, _ => true }
{ unimplemented!() }
#[verifier::external_body]
pub fn decode_gob<R>(reader: &mut H263Reader<R>, o: DecoderOption) -> Result<Option<GroupOfBlocks>> { unimplemented!() }
#[verifier::external_body]
pub fn decode_block<R>(reader: &mut H263Reader<R>, o: DecoderOption, p: &Picture, ro: PictureOption, t: MacroblockType, c: bool) -> Result<Block> { unimplemented!() }
#[verifier::external_body]
pub fn inverse_rle(b: &Block, levels: &mut [DecodedDctBlock], pos: (usize, usize), blk_per_line: usize, quant: u8)
    requires pos.0 / 8 + (pos.1 / 8) * blk_per_line < old(levels).len(), 1 <= quant <= 31,
    ensures final(levels).len() == old(levels).len()
{ unimplemented!() }
#[verifier::external_body]
pub fn predict_candidate(pv: &[[MotionVector; 4]], cur: &[MotionVector; 4], mb_per_line: usize, index: usize) -> MotionVector
    requires mb_per_line > 0, index < 4
{ unimplemented!() }
#[verifier::external_body]
pub fn mv_decode(p: &DecodedPicture, o: PictureOption, pred: MotionVector, mvd: MotionVector) -> MotionVector { unimplemented!() }
#[verifier::external_body]
pub fn gather(t: &[MacroblockType], r: Option<&DecodedPicture>, mvs: &[[MotionVector; 4]], mb_per_line: usize, n: &mut DecodedPicture) -> std::result::Result<(), Error>
    requires mb_per_line > 0
{ unimplemented!() }
#[verifier::external_body]
pub fn idct_channel(l: &[DecodedDctBlock], out: &mut [u8], blk_per_line: usize, spl: usize)
    requires blk_per_line > 0, spl > 0
{ unimplemented!() }
#[verifier::external_body]
pub fn next_running_options_of(p: &Picture, running: PictureOption) -> PictureOption { unimplemented!() }
#[verifier::external_body]
pub fn ceil_div16(x: u16) -> (r: usize) ensures r as int == (x as int + 15) / 16 { unimplemented!() }

pub struct H263State {
    decoder_options: DecoderOption,
    last_picture: Option<u16>,
    reference_picture: Option<u16>,
    running_options: PictureOption,
    reference_states: HashMap<u16, DecodedPicture>,
}

impl H263State {
    pub fn is_sorenson(&self) -> bool {
        self.decoder_options
            .contains(DecoderOption::SORENSON_SPARK_BITSTREAM)
    }
    pub fn get_last_picture(&self) -> Option<&DecodedPicture> {
        if self.last_picture.is_none() {
            None
        } else {
            self.reference_states.get(&self.last_picture.unwrap())
        }
    }
    pub fn get_reference_picture(&self) -> Option<&DecodedPicture> {
        if self.reference_picture.is_none() {
            None
        } else {
            self.reference_states.get(&self.reference_picture.unwrap())
        }
    }
    #[verifier::external_body]
    pub fn cleanup_buffers(&mut self) {}
    pub fn parse_picture<R>(
        &self,
        reader: &mut H263Reader<R>,
        previous_picture: Option<&Picture>,
    ) -> Result<Option<Picture>>
    {
        decode_picture(reader, self.decoder_options, previous_picture)
    }

    #[verifier::exec_allows_no_decreases_clause]
    pub fn decode_next_picture_body<R>(&mut self, reader: &mut H263Reader<R>) -> Result<()>
    {

            let next_picture = self
                .parse_picture(reader, self.get_last_picture().map(|p| p.as_header()))?
                .ok_or(Error::MiddleOfBitstream)?;

            let next_running_options = next_running_options_of(&next_picture, self.running_options);

            let format = if let Some(format) = next_picture.format {
                format
            } else if matches!(next_picture.picture_type, PictureTypeCode::IFrame) {
                return Err(Error::PictureFormatMissing);
            } else if let Some(ref_format) = self.get_last_picture().map(|rp| rp.format()) {
                ref_format
            } else {
                return Err(Error::PictureFormatMissing);
            };

            let reference_picture = self.get_reference_picture();

            let output_dimensions = format
                .into_width_and_height()
                .ok_or(Error::PictureFormatInvalid)?;

            if output_dimensions.0 == 0 || output_dimensions.1 == 0 { return Err(Error::PictureFormatInvalid); }
            let mb_per_line = ceil_div16(output_dimensions.0);
            let mb_height = ceil_div16(output_dimensions.1);

            let level_dimensions = (mb_per_line * 16, mb_height * 16);

            let mut in_force_quantizer = next_picture.quantizer;
            let mut predictor_vectors = Vec::with_capacity(mb_per_line * mb_height); // all previously decoded MVDs
            let mut macroblock_types = Vec::with_capacity(mb_per_line * mb_height);
            let mut macroblocks_after_gob = 0; //reset after every GOB header

            let mut next_decoded_picture =
                DecodedPicture::new(next_picture, format).ok_or(Error::PictureFormatInvalid)?;

            let mut luma_levels =
                vec![DecodedDctBlock::Zero; level_dimensions.0 * level_dimensions.1 / 64];
            let mut chroma_b_levels =
                vec![DecodedDctBlock::Zero; level_dimensions.0 * level_dimensions.1 / 4 / 64];
            let mut chroma_r_levels =
                vec![DecodedDctBlock::Zero; level_dimensions.0 * level_dimensions.1 / 4 / 64];

            loop
                invariant_except_break
                    mb_per_line >= 1, mb_height >= 1, mb_per_line <= 4096, mb_height <= 4096,
                    level_dimensions.0 == mb_per_line * 16, level_dimensions.1 == mb_height * 16,
                    macroblock_types.len() == predictor_vectors.len(),
                    macroblocks_after_gob <= predictor_vectors.len(),
                    luma_levels.len() == mb_per_line * mb_height * 4,
                    chroma_b_levels.len() == mb_per_line * mb_height,
                    chroma_r_levels.len() == mb_per_line * mb_height,
                    in_force_quantizer <= 31,
                ensures
                    mb_per_line >= 1, mb_height >= 1,
            {
                if macroblock_types.len() >= mb_per_line * mb_height { break; }
                let mb = decode_macroblock(
                    reader,
                    next_decoded_picture.as_header(),
                    next_running_options,
                );
                let pos = (
                    (macroblock_types.len() % mb_per_line) * 16,
                    (macroblock_types.len() / mb_per_line) * 16,
                );
                let mut motion_vectors = [MotionVector::zero(); 4];

                let mb_type = match mb {
                    Ok(Macroblock::Stuffing) => continue,
                    Ok(Macroblock::Uncoded) => {
                        if matches!(
                            next_decoded_picture.as_header().picture_type,
                            PictureTypeCode::IFrame
                        ) {
                            return Err(Error::UncodedIFrameBlocks);
                        }

                        MacroblockType::Inter
                    }
                    Ok(Macroblock::Coded {
                        mb_type,
                        coded_block_pattern,
                        coded_block_pattern_b: _coded_block_pattern_b,
                        d_quantizer,
                        motion_vector,
                        addl_motion_vectors,
                        motion_vectors_b: _motion_vectors_b,
                    }) => {
                        let quantizer = in_force_quantizer as i8 + d_quantizer.unwrap_or(0);
                        in_force_quantizer = quantizer.clamp(1, 31) as u8;

                        if mb_type.is_inter() {
                            let mv1 = motion_vector.unwrap_or_else(MotionVector::zero);
                            let mpred1 = predict_candidate(
                                &predictor_vectors[macroblocks_after_gob..],
                                &motion_vectors,
                                mb_per_line,
                                0,
                            );

                            motion_vectors[0] =
                                mv_decode(&next_decoded_picture, next_running_options, mpred1, mv1);

                            if let Some(addl_mvs) = addl_motion_vectors {
 let mv2 = addl_mvs[0]; let mv3 = addl_mvs[1]; let mv4 = addl_mvs[2];
                                let mpred2 = predict_candidate(
                                    &predictor_vectors[macroblocks_after_gob..],
                                    &motion_vectors,
                                    mb_per_line,
                                    1,
                                );
                                motion_vectors[1] = mv_decode(
                                    &next_decoded_picture,
                                    next_running_options,
                                    mpred2,
                                    mv2,
                                );

                                let mpred3 = predict_candidate(
                                    &predictor_vectors[macroblocks_after_gob..],
                                    &motion_vectors,
                                    mb_per_line,
                                    2,
                                );
                                motion_vectors[2] = mv_decode(
                                    &next_decoded_picture,
                                    next_running_options,
                                    mpred3,
                                    mv3,
                                );

                                let mpred4 = predict_candidate(
                                    &predictor_vectors[macroblocks_after_gob..],
                                    &motion_vectors,
                                    mb_per_line,
                                    3,
                                );
                                motion_vectors[3] = mv_decode(
                                    &next_decoded_picture,
                                    next_running_options,
                                    mpred4,
                                    mv4,
                                );
                            } else {
                                motion_vectors[1] = motion_vectors[0];
                                motion_vectors[2] = motion_vectors[0];
                                motion_vectors[3] = motion_vectors[0];
                            };
                        };

                        let luma0 = decode_block(
                            reader,
                            self.decoder_options,
                            next_decoded_picture.as_header(),
                            next_running_options,
                            mb_type,
                            coded_block_pattern.codes_luma[0],
                        )?;
                        inverse_rle(
                            &luma0,
                            &mut luma_levels,
                            pos,
                            level_dimensions.0 / 8,
                            in_force_quantizer,
                        );

                        let luma1 = decode_block(
                            reader,
                            self.decoder_options,
                            next_decoded_picture.as_header(),
                            next_running_options,
                            mb_type,
                            coded_block_pattern.codes_luma[1],
                        )?;
                        inverse_rle(
                            &luma1,
                            &mut luma_levels,
                            (pos.0 + 8, pos.1),
                            level_dimensions.0 / 8,
                            in_force_quantizer,
                        );

                        let luma2 = decode_block(
                            reader,
                            self.decoder_options,
                            next_decoded_picture.as_header(),
                            next_running_options,
                            mb_type,
                            coded_block_pattern.codes_luma[2],
                        )?;
                        inverse_rle(
                            &luma2,
                            &mut luma_levels,
                            (pos.0, pos.1 + 8),
                            level_dimensions.0 / 8,
                            in_force_quantizer,
                        );

                        let luma3 = decode_block(
                            reader,
                            self.decoder_options,
                            next_decoded_picture.as_header(),
                            next_running_options,
                            mb_type,
                            coded_block_pattern.codes_luma[3],
                        )?;
                        inverse_rle(
                            &luma3,
                            &mut luma_levels,
                            (pos.0 + 8, pos.1 + 8),
                            level_dimensions.0 / 8,
                            in_force_quantizer,
                        );

                        let chroma_b = decode_block(
                            reader,
                            self.decoder_options,
                            next_decoded_picture.as_header(),
                            next_running_options,
                            mb_type,
                            coded_block_pattern.codes_chroma_b,
                        )?;
                        inverse_rle(
                            &chroma_b,
                            &mut chroma_b_levels,
                            (pos.0 / 2, pos.1 / 2),
                            mb_per_line,
                            in_force_quantizer,
                        );

                        let chroma_r = decode_block(
                            reader,
                            self.decoder_options,
                            next_decoded_picture.as_header(),
                            next_running_options,
                            mb_type,
                            coded_block_pattern.codes_chroma_r,
                        )?;
                        inverse_rle(
                            &chroma_r,
                            &mut chroma_r_levels,
                            (pos.0 / 2, pos.1 / 2),
                            mb_per_line,
                            in_force_quantizer,
                        );

                        mb_type
                    }

                    //Attempt to recover from macroblock errors if possible
                    Err(ref e) if e.is_macroblock_error() && !self.is_sorenson() => {
                        match decode_gob(reader, self.decoder_options) {
                            //Resynchronized to end of picture.
                            Ok(None) => break,

                            //Resynchronized to end of GOB.
                            Ok(Some(GroupOfBlocks {
                                group_number: _group_number,
                                multiplex_bitstream: _multiplex_bitstream,
                                frame_id: _frame_id,
                                quantizer,
                            })) => {
                                in_force_quantizer = quantizer;
                                macroblocks_after_gob = macroblock_types.len();
                                continue;
                            }

                            // Treat EOF/GOB errors as end of picture
                            Err(ref e) if e.is_eof_error() || e.is_gob_error() => break,
                            Err(e) => return Err(e),
                        }
                    }

                    //Treat EOF errors as end of picture
                    Err(ref e) if e.is_eof_error() => break,
                    Err(e) => return Err(e),
                };

                predictor_vectors.push(motion_vectors);
                macroblock_types.push(mb_type);
            }

            //If the picture ended early, assume all the remaining blocks are
            //empty INTER blocks with motion vector (0,0)
            if predictor_vectors.len() < predictor_vectors.capacity() {
                predictor_vectors.resize(predictor_vectors.capacity(), [MotionVector::zero(); 4]);
            }

            if macroblock_types.len() < macroblock_types.capacity() {
                macroblock_types.resize(macroblock_types.capacity(), MacroblockType::Inter);
            }

            //We have now read out all of the macroblock and block data and
            //queued it up into the various internal buffers we allocated for
            //this purpose. Time to decode it all in one go.
            gather(
                &macroblock_types,
                reference_picture,
                &predictor_vectors,
                mb_per_line,
                &mut next_decoded_picture,
            )?;
            idct_channel(
                &luma_levels,
                next_decoded_picture.as_luma_mut(),
                mb_per_line * 2,
                (output_dimensions.0).into(),
            );

            let chroma_samples_per_row = next_decoded_picture.chroma_samples_per_row();
            idct_channel(
                &chroma_b_levels,
                next_decoded_picture.as_chroma_b_mut(),
                mb_per_line,
                chroma_samples_per_row,
            );
            idct_channel(
                &chroma_r_levels,
                next_decoded_picture.as_chroma_r_mut(),
                mb_per_line,
                chroma_samples_per_row,
            );

            //At this point, all decoding should be complete, and we should
            //have a fresh picture to put into the reference pile. We treat YUV
            //encoded pictures as "decoded" since the referencing scheme used
            //in H.263 demands it. Ask a GPU for help.
            if matches!(
                next_decoded_picture.as_header().picture_type,
                PictureTypeCode::IFrame
            ) {
                //You cannot backwards predict across iframes
                self.reference_picture = None;
            }

            let this_tr = next_decoded_picture.as_header().temporal_reference;
            self.last_picture = Some(this_tr);
            if !next_decoded_picture
                .as_header()
                .picture_type
                .is_disposable()
            {
                self.reference_picture = Some(this_tr);
            }

            self.reference_states.insert(this_tr, next_decoded_picture);
            self.cleanup_buffers();

            reader.commit();

            Ok(())

    }
}
} // verus!
fn main() {}
