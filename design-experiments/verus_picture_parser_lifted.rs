use vstd::prelude::*;
verus! {
pub enum Error { InternalDecoderError, MiddleOfBitstream, InvalidPType, InvalidPlusPType, InvalidBitstream, PictureFormatInvalid, UnhandledIoError(bool), UnimplementedDecoding }
pub type Result<T> = std::result::Result<T, Error>;

#[verifier::external_body]
#[verifier::reject_recursive_types(R)]
pub struct H263Reader<R> { r: R }
pub trait BitReadable: Sized { }
impl BitReadable for u8 {} impl BitReadable for u16 {} impl BitReadable for u32 {} impl BitReadable for i32 {}
impl<R> H263Reader<R> {
    #[verifier::external_body]
    pub fn read_bits<T: BitReadable>(&mut self, n: u32) -> Result<T> { unimplemented!() }
    #[verifier::external_body]
    pub fn read_u8(&mut self) -> Result<u8> { unimplemented!() }
    #[verifier::external_body]
    pub fn skip_bits(&mut self, n: u32) -> Result<()> { unimplemented!() }
    #[verifier::external_body]
    pub fn recognize_start_code(&mut self, in_error: bool) -> Result<Option<u32>> { unimplemented!() }
}
#[derive(Copy, Clone)]
pub struct PictureOption { pub bits: u32 }
impl PictureOption {
    pub const USE_SPLIT_SCREEN: PictureOption = PictureOption { bits: 0b1 };
    pub const USE_DOCUMENT_CAMERA: PictureOption = PictureOption { bits: 0b10 };
    pub const RELEASE_FULL_PICTURE_FREEZE: PictureOption = PictureOption { bits: 0b100 };
    pub const UNRESTRICTED_MOTION_VECTORS: PictureOption = PictureOption { bits: 0b1000 };
    pub const SYNTAX_BASED_ARITHMETIC_CODING: PictureOption = PictureOption { bits: 0b10000 };
    pub const ADVANCED_PREDICTION: PictureOption = PictureOption { bits: 0b100000 };
    pub const ADVANCED_INTRA_CODING: PictureOption = PictureOption { bits: 0b1000000 };
    pub const DEBLOCKING_FILTER: PictureOption = PictureOption { bits: 0b10000000 };
    pub const SLICE_STRUCTURED: PictureOption = PictureOption { bits: 0b100000000 };
    pub const REFERENCE_PICTURE_SELECTION: PictureOption = PictureOption { bits: 0b1000000000 };
    pub const INDEPENDENT_SEGMENT_DECODING: PictureOption = PictureOption { bits: 0b10000000000 };
    pub const ALTERNATIVE_INTER_VLC: PictureOption = PictureOption { bits: 0b100000000000 };
    pub const MODIFIED_QUANTIZATION: PictureOption = PictureOption { bits: 0b1000000000000 };
    pub const REFERENCE_PICTURE_RESAMPLING: PictureOption = PictureOption { bits: 0b10000000000000 };
    pub const REDUCED_RESOLUTION_UPDATE: PictureOption = PictureOption { bits: 0b100000000000000 };
    pub const ROUNDING_TYPE_ONE: PictureOption = PictureOption { bits: 0b1000000000000000 };
    pub const USE_DEBLOCKER: PictureOption = PictureOption { bits: 0b10000000000000000 };
    pub fn empty() -> Self { PictureOption { bits: 0 } }
    pub fn contains(&self, o: PictureOption) -> bool { self.bits & o.bits == o.bits }
}
pub fn opptype_options() -> PictureOption { PictureOption { bits: 0b1111111111000 } }
impl core::ops::BitOr for PictureOption { type Output = Self; fn bitor(self, r: Self) -> Self { PictureOption { bits: self.bits | r.bits } } }
impl core::ops::BitAnd for PictureOption { type Output = Self; fn bitand(self, r: Self) -> Self { PictureOption { bits: self.bits & r.bits } } }
impl core::ops::BitOrAssign for PictureOption { fn bitor_assign(&mut self, r: Self) { self.bits = self.bits | r.bits; } }
impl core::ops::BitOrAssign for PlusPTypeFollower { fn bitor_assign(&mut self, r: Self) { self.bits = self.bits | r.bits; } }
impl core::ops::BitOrAssign for SliceSubmode { fn bitor_assign(&mut self, r: Self) { self.bits = self.bits | r.bits; } }
impl core::ops::BitOrAssign for ReferencePictureSelectionMode { fn bitor_assign(&mut self, r: Self) { self.bits = self.bits | r.bits; } }
#[derive(Copy, Clone)]
pub struct DecoderOption { pub bits: u8 }
impl DecoderOption {
    pub const SORENSON_SPARK_BITSTREAM: DecoderOption = DecoderOption { bits: 1 };
    pub const USE_SCALABILITY_MODE: DecoderOption = DecoderOption { bits: 2 };
    pub fn contains(&self, o: DecoderOption) -> bool { self.bits & o.bits == o.bits }
}
#[derive(Copy, Clone)]
pub struct PlusPTypeFollower { pub bits: u8 }
impl PlusPTypeFollower {
    pub const HAS_CUSTOM_FORMAT: Self = Self { bits: 0b1 };
    pub const HAS_CUSTOM_CLOCK: Self = Self { bits: 0b10 };
    pub const HAS_MOTION_VECTOR_RANGE: Self = Self { bits: 0b100 };
    pub const HAS_SLICE_STRUCTURED_SUBMODE: Self = Self { bits: 0b1000 };
    pub const HAS_REFERENCE_LAYER_NUMBER: Self = Self { bits: 0b10000 };
    pub const HAS_REFERENCE_PICTURE_SELECTION_MODE: Self = Self { bits: 0b100000 };
    pub fn empty() -> Self { Self { bits: 0 } }
    pub fn contains(&self, o: Self) -> bool { self.bits & o.bits == o.bits }
}
#[derive(Copy, Clone)]
pub struct SliceSubmode { pub bits: u8 }
impl SliceSubmode { pub const RECTANGULAR_SLICES: Self = Self { bits: 1 }; pub const ARBITRARY_ORDER: Self = Self { bits: 2 }; pub fn empty() -> Self { Self { bits: 0 } } }
#[derive(Copy, Clone)]
pub struct ReferencePictureSelectionMode { pub bits: u8 }
impl ReferencePictureSelectionMode { pub const RESERVED: Self = Self { bits: 1 }; pub const REQUEST_NEGATIVE_ACKNOWLEDGEMENT: Self = Self { bits: 2 }; pub const REQUEST_ACKNOWLEDGEMENT: Self = Self { bits: 4 }; pub fn empty() -> Self { Self { bits: 0 } } }
pub struct Picture {
    /// The version code.
    ///
    /// Only Sorenson Spark bitstreams contain a version code; compliant H.263
    /// bitstreams are unversioned.
    pub version: Option<u8>,

    /// The temporal reference index of this picture.
    ///
    /// This value may either be 8 or 10 bits wide. This means that references
    /// will overflow after frame 255 or 1023.
    pub temporal_reference: u16,

    /// The source format of the image. Determines it's resolution and frame
    /// rate.
    ///
    /// If unspecified, then the source format matches the reference picture
    /// for this picture.
    pub format: Option<SourceFormat>,

    /// Options which are enabled (or were implicitly present) on this picture.
    pub options: PictureOption,

    /// Indicates if this picture was sent with a `PLUSPTYPE`.
    pub has_plusptype: bool,

    /// Indicates if this picture was sent with an `OPPTYPE`.
    ///
    /// The absence of an `OPPTYPE` leaves several `PictureOption`s unset that
    /// are still in force; higher-level decoder machinery is responsible for
    /// keeping track of options in force from previous pictures.
    pub has_opptype: bool,

    /// The intra-prediction mode in use, if any.
    pub picture_type: PictureTypeCode,

    /// Specifies the limits on motion vectors.
    ///
    /// Must be specified if and only if the `PictureOption` called
    /// `UnlimitedMotionVectors` is also enabled.
    pub motion_vector_range: Option<MotionVectorRange>,

    /// What slice-structured submodes are active.
    ///
    /// Must be specified if and only if the `PictureOption` called
    /// `SLICE_STRUCTURED` is also enabled.
    pub slice_submode: Option<SliceSubmode>,

    /// Which layer this picture is a member of.
    ///
    /// Only present if Temporal, SNR, and Spatial Scalability mode is enabled.
    pub scalability_layer: Option<ScalabilityLayer>,

    /// What backchannel signals is the encoder requesting from it's decoding
    /// partner.
    pub reference_picture_selection_mode: Option<ReferencePictureSelectionMode>,

    /// ITU-T Recommendation H.263 (01/2005) 5.1.14-5.1.15 `TRP`,`TRPI`
    ///
    /// Indicates the temporal reference of the picture to be used to
    /// reconstruct this picture. Must not be specified if this is an `IFrame`
    /// or `EiFrame`. For `BFrame`s, this field indicates the reference number
    /// of the forward-predicted reference frame. If not specified, intra
    /// prediction proceeds as if `REFERENCE_PICTURE_SELECTION` had not been
    /// enabled.
    pub prediction_reference: Option<u16>,

    /// ITU-T Recommendation H.263 (01/2005) 5.1.16 `BCI`
    ///
    /// This field stores any backchannel message requests sent by the encoder.
    /// This field may only be present if `REFERENCE_PICTURE_SELECTION` has
    /// been enabled.
    pub backchannel_message: Option<BackchannelMessage>,

    /// ITU-T Recommendation H.263 (01/2005) 5.1.18 `RPRP`
    ///
    /// Carries the parameters of the `REFERENCE_PICTURE_RESAMPLING` mode.
    pub reference_picture_resampling: Option<ReferencePictureResampling>,

    /// ITU-T Recommendation H.263 (01/2005) 5.1.19 `PQUANT`
    ///
    /// The quantizer factor to be used for this picture (unless otherwise
    /// overridden in a particular lower layer).
    pub quantizer: u8,

    /// ITU-T Recommendation H.263 (01/2005) 5.1.20-5.1.21 `CPM`, `PSBI`
    ///
    /// A number from 0 to 3 indicating which multipoint sub-bitstream this
    /// picture is a member of. If `None`, then the continuous presence
    /// multipoint feature is not enabled.
    pub multiplex_bitstream: Option<u8>,

    /// ITU-T Recommendation H.263 (01/2005) 5.1.22 `TRb`
    ///
    /// The number of non-transmitted frames to the B half of the current PB
    /// frame. This field should not be present if not using PB frames or their
    /// improved variety.
    pub pb_reference: Option<u8>,

    /// ITU-T Recommendation H.263 (01/2005) 5.1.23 `DBQUANT`
    ///
    /// The quantization factor used for the B block of a PB frame. This field
    /// should not be present if not using PB frames or their improved variety.
    pub pb_quantizer: Option<BPictureQuantizer>,

    /// ITU-T Recommendation H.263 (01/2005) 5.1.24 `PEI`
    ///
    /// Extra information bytes which may have been added to this picture.
    pub extra: Vec<u8>,
}
#[derive(Copy, Clone, PartialEq)]
pub enum SourceFormat {
    /// 128x96 @ 30000/1001hz
    SubQcif,

    /// 176x144 @ 30000/1001hz
    QuarterCif,

    /// 352x288 @ 30000/1001hz
    FullCif,

    /// 704x576 @ 30000/1001hz
    FourCif,

    /// 1408x1152 @ 30000/1001hz
    SixteenCif,

    /// Reserved by H.264 spec. Does not appear to be in use.
    Reserved,

    /// A custom source format.
    Extended(CustomPictureFormat),
}
#[derive(Copy, Clone)]
pub enum PictureTypeCode {
    /// A full picture update that can be independently decoded.
    IFrame,

    /// A partial picture update that references a previously decoded frame.
    PFrame,

    /// PB frames.
    PbFrame,

    /// "Improved" PB frames.
    ImprovedPbFrame,

    /// A partial picture update that references up to two decoded frames, any
    /// of which may be future frames.
    BFrame,

    /// EI frames
    EiFrame,

    /// EP frames
    EpFrame,

    /// A reserved picture type code.
    ///
    /// The provided `u8` is the `MPPTYPE` that was reserved, anchored to the
    /// lowest significant bit of the `u8`.
    Reserved(u8),

    /// A partial picture update that references a previously decoded frame.
    ///
    /// This particular picture type has an additional stipulation: the encoder
    /// promises not to code frames that reference this one. The decoder is
    /// thus free to dispose of it after the fact.
    ///
    /// This picture type is exclusive to Sorenson Spark bitstreams.
    DisposablePFrame,
}
#[derive(Copy, Clone, PartialEq)]
pub struct CustomPictureFormat {
    /// The aspect ratio of a single pixel.
    pub pixel_aspect_ratio: PixelAspectRatio,

    /// The number of pixels per line.
    pub picture_width_indication: u16,

    /// The number of lines per image.
    pub picture_height_indication: u16,
}
#[derive(Copy, Clone, PartialEq)]
pub enum PixelAspectRatio {
    /// 1:1 pixel aspect ratio. Most common on modern displays.
    Square,

    /// 12:11 pixel aspect ratio. Noted as "CIF for 4:3 Picture" in H.263.
    Par12_11,

    /// 10:11 pixel aspect ratio. Noted as "525-type for 4:3 Picture" in H.263.
    Par10_11,

    /// 16:11 pixel aspect ratio. Noted as "CIF stretched for 16:9 Picture" in
    /// H.263.
    Par16_11,

    /// 40:33 pixel aspect ratio. Noted as "525-type stretched for 16:9
    /// Picture" in H.263.
    Par40_33,

    /// One of the reserved PAR options.
    ///
    /// The provided `u8` is the `PAR` code that was reserved, anchored to the
    /// lowest significant bit of the `u8`.
    Reserved(u8),

    /// An extended/custom pixel aspect ratio.
    ///
    /// It is forbidden to have a zero width or height pixel.
    Extended { par_width: u8, par_height: u8 },
}
pub struct CustomPictureClock {
    /// Whether or not the divisor is multiplied by 1000 or 1001.
    ///
    /// `true` indicates 1001, whilst `false` indicates 1000.
        pub times_1001: bool,

    /// The divisor, itself stored divided by a constant factor (see
    /// `times_1001`.)
        pub divisor: u8,
}
pub enum MotionVectorRange {
    /// Motion vector component ranges are extended to limits that are
    /// prescribed in ITU-T Recommendation H.263 (01/2005) D.1 and D.2.
    Extended,

    /// Motion vector component ranges are only limited by the picture size.
    Unlimited,
}
pub struct ScalabilityLayer {
    /// The 4-bit enhancement layer index.
    pub enhancement: u8,

    /// The 4-bit reference layer index.
    ///
    /// If `None`, then this picture does not specify the reference layer for
    /// this layer. You should refer to previous pictures that do declare a
    /// reference layer in order to obtain that value in this case.
    pub reference: Option<u8>,
}
pub struct BackchannelMessage {
    /// What message type is being back-channeled.
    message_type: BackchannelMessageType,

    /// Whether or not the backchanneler has reliable reference numbers to the
    /// opposing video stream. This being set to `Unreliable` indicates that
    /// the references in this message may not be correct.
    reliable: BackchannelReliability,

    /// The temporal reference of the picture being backchanneled.
    temporal_reference: u16,

    /// The enhancement layer being backchanneled, or `None` if no layer was
    /// specified.
    enhancement_layer: Option<u8>,

    /// The sub-bitstream number being backchanneled.
    sub_bitstream: Option<u8>,

    /// The GOB number or macroblock address being backchanneled.
    gob_macroblock_address: Option<u16>,

    /// The temporal reference being requested for retransmission (if NACK).
    requested_temporal_reference: Option<u16>,
}
pub enum BackchannelMessageType {
    /// Positive acknowledgement of correct decoding of the opposing video
    /// stream.
    Acknowledge,

    /// Negative acknowledgement of erroneous or failed decoding of the
    /// opposing video stream.
    NegativeAcknowledge,

    /// Reserved message type.
    Reserved(u8),
}
pub enum BackchannelReliability {
    Reliable,
    Unreliable,
}
pub struct ReferencePictureResampling {
    accuracy: WarpingDisplacementAccuracy,

    /// The eight warping parameters for reference picture resampling.
    ///
    /// Each parameter is encoded according to table `D.3` in H.263 (01/2005).
    /// This is a variable-length code whose decoded values max out at around
    /// 11 bits.
    warps: Option<[u16; 8]>,
}
pub enum WarpingDisplacementAccuracy {
    /// Warping parameters are quantized to half-pixel accuracy.
    HalfPixel,

    /// Warping parameters are quantized to sixteenth-pixel accuracy.
    SixteenthPixel,
}
pub enum BPictureQuantizer {
    /// B-Quantizer is five-fourths
    Five,

    /// B-Quantizer is six-fourths
    Six,

    /// B-Quantizer is seven-fourths
    Seven,

    /// B-Quantizer is eight-fourths
    Eight,
}



/// The information imparted by a `PTYPE` record.
///
/// If the optional portion of this type is `None`, that signals that a
/// `PLUSPTYPE` immediately follows the `PTYPE` record.
pub type PType = (PictureOption, Option<(SourceFormat, PictureTypeCode)>);

/// Decodes the first 8 bits of `PTYPE`.
fn decode_ptype<R>(reader: &mut H263Reader<R>) -> Result<PType>
{
    {
        let mut options = PictureOption::empty();

        let high_ptype_bits = reader.read_u8()?;
        if high_ptype_bits & 0xC0 != 0x80 {
            return Err(Error::InvalidPType);
        }

        if high_ptype_bits & 0x20 != 0 {
            options |= PictureOption::USE_SPLIT_SCREEN;
        }

        if high_ptype_bits & 0x10 != 0 {
            options |= PictureOption::USE_DOCUMENT_CAMERA;
        }

        if high_ptype_bits & 0x08 != 0 {
            options |= PictureOption::RELEASE_FULL_PICTURE_FREEZE;
        }

        let source_format = match high_ptype_bits & 0x07 {
            0 => return Err(Error::InvalidPType),
            1 => SourceFormat::SubQcif,
            2 => SourceFormat::QuarterCif,
            3 => SourceFormat::FullCif,
            4 => SourceFormat::FourCif,
            5 => SourceFormat::SixteenCif,
            6 => SourceFormat::Reserved,
            _ => return Ok((options, None)),
        };

        let low_ptype_bits: u8 = reader.read_bits(5)?;
        let mut r#type = if low_ptype_bits & 0x10 != 0 {
            PictureTypeCode::IFrame
        } else {
            PictureTypeCode::PFrame
        };

        if low_ptype_bits & 0x08 != 0 {
            options |= PictureOption::UNRESTRICTED_MOTION_VECTORS;
        }

        if low_ptype_bits & 0x04 != 0 {
            options |= PictureOption::SYNTAX_BASED_ARITHMETIC_CODING;
        }

        if low_ptype_bits & 0x02 != 0 {
            options |= PictureOption::ADVANCED_PREDICTION;
        }

        if low_ptype_bits & 0x01 != 0 {
            r#type = PictureTypeCode::PbFrame;
        }

        Ok((options, Some((source_format, r#type))))
    }
}



/// The information imparted by a `PLUSPTYPE` record.
///
/// `SourceFormat` is optional and will be `None` either if the record did not
/// specify a `SourceFormat` or if it specified a custom one. To determine if
/// one needs to be parsed, read the `PlusPTypeFollower`s, which indicate
/// additional records which follow this one in the bitstream.
///
/// The `bool` indicates if `OPPTYPE` was present in the `PLUSPTYPE` record.
pub type PlusPType = (
    PictureOption,
    Option<SourceFormat>,
    PictureTypeCode,
    PlusPTypeFollower,
    bool,
);



/// Attempts to read a `PLUSPTYPE` record from the bitstream.
///
/// The set of previous picture options are used to carry forward previously-
/// enabled options in the case where the `PLUSPTYPE` does not change them.
fn decode_plusptype<R>(
    reader: &mut H263Reader<R>,
    decoder_options: DecoderOption,
    previous_picture_options: PictureOption,
) -> Result<PlusPType>
{
    {
        let ufep: u8 = reader.read_bits(3)?;
        let has_opptype = match ufep {
            0 => false,
            1 => true,
            _ => return Err(Error::InvalidPlusPType),
        };

        let mut options = PictureOption::empty();
        let mut followers = PlusPTypeFollower::empty();
        let mut source_format = None;

        if has_opptype {
            let opptype: u32 = reader.read_bits(18)?;

            // OPPTYPE should end in bits 1000 as per H.263 5.1.4.2
            if (opptype & 0xF) != 0x8 {
                return Err(Error::InvalidPlusPType);
            }

            source_format = match (opptype & 0x38000) >> 15 {
                0 => Some(SourceFormat::Reserved),
                1 => Some(SourceFormat::SubQcif),
                2 => Some(SourceFormat::QuarterCif),
                3 => Some(SourceFormat::FullCif),
                4 => Some(SourceFormat::FourCif),
                5 => Some(SourceFormat::SixteenCif),
                6 => {
                    followers |= PlusPTypeFollower::HAS_CUSTOM_FORMAT;

                    None
                }
                _ => Some(SourceFormat::Reserved),
            };

            if opptype & 0x04000 != 0 {
                followers |= PlusPTypeFollower::HAS_CUSTOM_CLOCK;
            }

            if opptype & 0x02000 != 0 {
                options |= PictureOption::UNRESTRICTED_MOTION_VECTORS;
                followers |= PlusPTypeFollower::HAS_MOTION_VECTOR_RANGE;
            }

            if opptype & 0x01000 != 0 {
                options |= PictureOption::SYNTAX_BASED_ARITHMETIC_CODING;
            }

            if opptype & 0x00800 != 0 {
                options |= PictureOption::ADVANCED_PREDICTION;
            }

            if opptype & 0x00400 != 0 {
                options |= PictureOption::ADVANCED_INTRA_CODING;
            }

            if opptype & 0x00200 != 0 {
                options |= PictureOption::DEBLOCKING_FILTER;
            }

            if opptype & 0x00100 != 0 {
                options |= PictureOption::SLICE_STRUCTURED;
                followers |= PlusPTypeFollower::HAS_SLICE_STRUCTURED_SUBMODE;
            }

            if opptype & 0x00080 != 0 {
                options |= PictureOption::REFERENCE_PICTURE_SELECTION;
                followers |= PlusPTypeFollower::HAS_REFERENCE_PICTURE_SELECTION_MODE;
            }

            if opptype & 0x00040 != 0 {
                options |= PictureOption::INDEPENDENT_SEGMENT_DECODING;
            }

            if opptype & 0x00020 != 0 {
                options |= PictureOption::ALTERNATIVE_INTER_VLC;
            }

            if opptype & 0x00010 != 0 {
                options |= PictureOption::MODIFIED_QUANTIZATION;
            }

            if decoder_options.contains(DecoderOption::USE_SCALABILITY_MODE) {
                followers |= PlusPTypeFollower::HAS_REFERENCE_LAYER_NUMBER;
            }
        } else {
            options |= previous_picture_options & opptype_options();
        }

        let mpptype: u16 = reader.read_bits(9)?;

        // MPPTYPE should end in bits 001 as per H.263 5.1.4.3
        if mpptype & 0x007 != 0x1 {
            return Err(Error::InvalidPlusPType);
        }

        let picture_type = match (mpptype & 0x1C0) >> 6 {
            0 => PictureTypeCode::IFrame,
            1 => PictureTypeCode::PFrame,
            2 => PictureTypeCode::ImprovedPbFrame,
            3 => PictureTypeCode::BFrame,
            4 => PictureTypeCode::EiFrame,
            5 => PictureTypeCode::EpFrame,
            r => PictureTypeCode::Reserved(r as u8),
        };

        if mpptype & 0x020 != 0 {
            options |= PictureOption::REFERENCE_PICTURE_RESAMPLING;
        }

        if mpptype & 0x010 != 0 {
            options |= PictureOption::REDUCED_RESOLUTION_UPDATE;
        }

        if mpptype & 0x008 != 0 {
            options |= PictureOption::ROUNDING_TYPE_ONE;
        }

        Ok((options, source_format, picture_type, followers, has_opptype))
    }
}

type SorensonPType = (SourceFormat, PictureTypeCode, PictureOption);

/// Attempts to read a Sorenson-equivalent PTYPE from the bitstream.
fn decode_sorenson_ptype<R>(reader: &mut H263Reader<R>) -> Result<SorensonPType>
{
    {
        let (mut source_format, bit_count) = match reader.read_bits(3)? {
            0 => (None, 8),
            1 => (None, 16),
            2 => (Some(SourceFormat::FullCif), 0),
            3 => (Some(SourceFormat::QuarterCif), 0),
            4 => (Some(SourceFormat::SubQcif), 0),
            5 => (
                Some(SourceFormat::Extended(CustomPictureFormat {
                    pixel_aspect_ratio: PixelAspectRatio::Square,
                    picture_width_indication: 320,
                    picture_height_indication: 240,
                })),
                0,
            ),
            6 => (
                Some(SourceFormat::Extended(CustomPictureFormat {
                    pixel_aspect_ratio: PixelAspectRatio::Square,
                    picture_width_indication: 160,
                    picture_height_indication: 120,
                })),
                0,
            ),
            _ => (Some(SourceFormat::Reserved), 0),
        };

        if source_format.is_none() {
            let custom_width = reader.read_bits(bit_count)?;
            let custom_height = reader.read_bits(bit_count)?;

            source_format = Some(SourceFormat::Extended(CustomPictureFormat {
                pixel_aspect_ratio: PixelAspectRatio::Square,
                picture_width_indication: custom_width,
                picture_height_indication: custom_height,
            }));
        }

        let picture_type = match reader.read_bits(2)? {
            0 => PictureTypeCode::IFrame,
            1 => PictureTypeCode::PFrame,
            2 => PictureTypeCode::DisposablePFrame,
            r => PictureTypeCode::Reserved(r),
        };

        let mut options = PictureOption::empty();

        if reader.read_bits::<u8>(1)? == 1 {
            options |= PictureOption::USE_DEBLOCKER;
        }

        Ok((source_format.unwrap(), picture_type, options))
    }
}

/// Attempts to read `CPM` and `PSBI` records from the bitstream.
///
/// The placement of this record changes based on whether or not a `PLUSPTYPE`
/// is present in the bitstream. If it is present, then this function should
/// be called immediately after parsing it. Otherwise, this function should be
/// called after parsing `PQUANT`.
fn decode_cpm_and_psbi<R>(reader: &mut H263Reader<R>) -> Result<Option<u8>>
{
    {
        if reader.read_bits::<u8>(1)? != 0 {
            Ok(Some(reader.read_bits::<u8>(2)?))
        } else {
            Ok(None)
        }
    }
}

/// Attempts to read `CPFMT` from the bitstream.
fn decode_cpfmt<R>(reader: &mut H263Reader<R>) -> Result<CustomPictureFormat>
{
    {
        let cpfmt: u32 = reader.read_bits(23)?;

        if cpfmt & 0x000200 == 0 {
            return Err(Error::PictureFormatInvalid);
        }

        let pixel_aspect_ratio = match (cpfmt & 0x780000) >> 19 {
            0 => return Err(Error::PictureFormatInvalid),
            1 => PixelAspectRatio::Square,
            2 => PixelAspectRatio::Par12_11,
            3 => PixelAspectRatio::Par10_11,
            4 => PixelAspectRatio::Par16_11,
            5 => PixelAspectRatio::Par40_33,
            15 => {
                let par_width = reader.read_u8()?;
                let par_height = reader.read_u8()?;

                if par_width == 0 || par_height == 0 {
                    return Err(Error::PictureFormatInvalid);
                }

                PixelAspectRatio::Extended {
                    par_width,
                    par_height,
                }
            }
            r => PixelAspectRatio::Reserved(r as u8),
        };

        let picture_width_indication = (((cpfmt & 0x07FC00) >> 10) as u16 + 1) * 4;
        let picture_height_indication = ((cpfmt & 0x0000FF) as u16) * 4;

        Ok(CustomPictureFormat {
            pixel_aspect_ratio,
            picture_width_indication,
            picture_height_indication,
        })
    }
}

/// Attempts to read `CPCFC` from the bitstream.
fn decode_cpcfc<R>(reader: &mut H263Reader<R>) -> Result<CustomPictureClock>
{
    {
        let cpcfc = reader.read_u8()?;

        Ok(CustomPictureClock {
            times_1001: cpcfc & 0x80 != 0,
            divisor: cpcfc & 0x7F,
        })
    }
}

/// Attempts to read `UUI` from the bitstream.
fn decode_uui<R>(reader: &mut H263Reader<R>) -> Result<MotionVectorRange>
{
    {
        let is_limited: u8 = reader.read_bits(1)?;
        if is_limited == 1 {
            return Ok(MotionVectorRange::Extended);
        }

        let is_unlimited: u8 = reader.read_bits(1)?;
        if is_unlimited == 1 {
            return Ok(MotionVectorRange::Unlimited);
        }

        Err(Error::InvalidBitstream)
    }
}

/// Attempts to read `SSS` from the bitstream.
fn decode_sss<R>(reader: &mut H263Reader<R>) -> Result<SliceSubmode>
{
    {
        let mut sss = SliceSubmode::empty();
        let sss_bits: u8 = reader.read_bits(2)?;

        if sss_bits & 0x01 != 0 {
            sss |= SliceSubmode::RECTANGULAR_SLICES;
        }

        if sss_bits & 0x02 != 0 {
            sss |= SliceSubmode::ARBITRARY_ORDER;
        }

        Ok(sss)
    }
}

/// Attempts to read `ELNUM` and `RLNUM` from the bitstream.
fn decode_elnum_rlnum<R>(
    reader: &mut H263Reader<R>,
    followers: PlusPTypeFollower,
) -> Result<ScalabilityLayer>
{
    {
        let enhancement = reader.read_bits(4)?;
        let reference = if followers.contains(PlusPTypeFollower::HAS_REFERENCE_LAYER_NUMBER) {
            Some(reader.read_bits(4)?)
        } else {
            None
        };

        Ok(ScalabilityLayer {
            enhancement,
            reference,
        })
    }
}

/// Attempts to read `RPSMF` from the bitstream.
fn decode_rpsmf<R>(reader: &mut H263Reader<R>) -> Result<ReferencePictureSelectionMode>
{
    {
        let mut rpsmf = ReferencePictureSelectionMode::empty();
        let rpsmf_bits: u8 = reader.read_bits(3)?;

        if rpsmf_bits & 0x4 == 0 {
            rpsmf |= ReferencePictureSelectionMode::RESERVED;
        }

        if rpsmf_bits & 0x2 != 0 {
            rpsmf |= ReferencePictureSelectionMode::REQUEST_NEGATIVE_ACKNOWLEDGEMENT;
        }

        if rpsmf_bits & 0x1 != 0 {
            rpsmf |= ReferencePictureSelectionMode::REQUEST_ACKNOWLEDGEMENT;
        }

        Ok(rpsmf)
    }
}

/// Attempts to read `TRPI` and `TRP` from the bitstream.
fn decode_trpi<R>(reader: &mut H263Reader<R>) -> Result<Option<u16>>
{
    {
        let trpi: u8 = reader.read_bits(1)?;

        if trpi == 1 {
            let trp: u16 = reader.read_bits(10)?;

            Ok(Some(trp))
        } else {
            Ok(None)
        }
    }
}

/// Attempts to read `BCI` and `BCM` from the bitstream.
fn decode_bcm<R>(reader: &mut H263Reader<R>) -> Result<Option<BackchannelMessage>>
{
    {
        let bci: u8 = reader.read_bits(1)?;

        if bci == 1 {
            Err(Error::UnimplementedDecoding)
        } else {
            let not_bci: u8 = reader.read_bits(1)?;

            if not_bci == 1 {
                Ok(None)
            } else {
                // BCI must be `1` or `01`
                Err(Error::InvalidBitstream)
            }
        }
    }
}

/// Attempts to read `RPRP` from the bitstream.
fn decode_rprp<R>(reader: &mut H263Reader<R>) -> Result<Option<ReferencePictureResampling>>
{
    Err(Error::UnimplementedDecoding)
}

/// Attempts to read `TRB` from the bitstream.
fn decode_trb<R>(reader: &mut H263Reader<R>, has_custom_pclk: bool) -> Result<u8>
{
    {
        if has_custom_pclk {
            reader.read_bits::<u8>(5)
        } else {
            reader.read_bits::<u8>(3)
        }
    }
}

/// Attempts to read `DBQUANT` from the bitstream.
fn decode_dbquant<R>(reader: &mut H263Reader<R>) -> Result<BPictureQuantizer>
{
    match reader.read_bits::<u8>(2)? {
        0 => Ok(BPictureQuantizer::Five),
        1 => Ok(BPictureQuantizer::Six),
        2 => Ok(BPictureQuantizer::Seven),
        3 => Ok(BPictureQuantizer::Eight),
        _ => Err(Error::InternalDecoderError),
    }
}

/// Attempts to read the `PSUPP` block from the bitstream as another embedded
/// bitstream.
fn decode_pei<R>(reader: &mut H263Reader<R>) -> Result<Vec<u8>>
{
    {
        let mut data = Vec::new();

        loop {
            let has_pei: u8 = reader.read_bits(1)?;
            if has_pei == 1 {
                data.push(reader.read_u8()?);
            } else {
                break;
            }
        }

        Ok(data)
    }
}

/// Attempts to read a picture record from an H.263 bitstream.
///
/// If no valid start code could be found in the bitstream, this function will
/// raise an error. If it is currently at the start of a GOB instead of a
/// Picture, then it will yield `None`, signalling that the current data should
/// be parsed as a GOB.
///
/// The set of `DecoderOptions` allows configuring certain information about
/// the decoding process that cannot be determined by decoding the bitstream
/// itself.
///
/// `previous_picture_options` is the set of options that were enabled by the
/// last decoded picture. If this is the first decoded picture in the
/// bitstream, then this should be an empty set.
pub fn decode_picture<R>(
    reader: &mut H263Reader<R>,
    decoder_options: DecoderOption,
    previous_picture: Option<&Picture>,
) -> Result<Option<Picture>>
{
    {
        let skipped_bits = reader
            .recognize_start_code(false)?
            .ok_or(Error::MiddleOfBitstream)?;

        reader.skip_bits(17 + skipped_bits)?;

        let gob_id = reader.read_bits(5)?;

        if decoder_options.contains(DecoderOption::SORENSON_SPARK_BITSTREAM) {
            let temporal_reference = reader.read_u8()? as u16;
            let (source_format, picture_type, options) = decode_sorenson_ptype(reader)?;
            let quantizer: u8 = reader.read_bits(5)?;
            let extra = decode_pei(reader)?;

            return Ok(Some(Picture {
                //Sorenson abuses the GOB ID as a version field.
                version: Some(gob_id),
                temporal_reference,
                format: Some(source_format),
                options,
                has_plusptype: false,
                has_opptype: false,
                picture_type,
                quantizer,
                extra,

                //Sorenson is always unlimited
                motion_vector_range: Some(MotionVectorRange::Unlimited),

                //Here's a bunch more modes Sorenson doesn't use.
                slice_submode: None,
                scalability_layer: None,
                reference_picture_selection_mode: None,
                prediction_reference: None,
                backchannel_message: None,
                reference_picture_resampling: None,
                multiplex_bitstream: None,
                pb_reference: None,
                pb_quantizer: None,
            }));
        } else if gob_id != 0 {
            return Ok(None);
        }

        let low_tr = reader.read_u8()?;
        let (mut options, maybe_format_and_type) = decode_ptype(reader)?;
        let mut multiplex_bitstream = None;
        let (mut format, picture_type, followers, has_plusptype, has_opptype) =
            match maybe_format_and_type {
                Some((format, picture_type)) => (
                    Some(format),
                    picture_type,
                    PlusPTypeFollower::empty(),
                    false,
                    false,
                ),
                None => {
                    let (extra_options, maybe_format, picture_type, followers, has_opptype) =
                        decode_plusptype(
                            reader,
                            decoder_options,
                            previous_picture
                                .map(|p| p.options)
                                .unwrap_or_else(PictureOption::empty),
                        )?;

                    options |= extra_options;

                    multiplex_bitstream = Some(decode_cpm_and_psbi(reader)?);

                    (maybe_format, picture_type, followers, true, has_opptype)
                }
            };

        //TODO: H.263 5.1.4.4-6 indicate a number of semantic restrictions on
        //picture options, modes, and followers. We should be inspecting our
        //set of options and raising an error if they're incorrect at this
        //time.

        //TODO: Some pictures don't restate their previous format, but the
        //contents of the picture rely on if the format has changed. We need
        //`decode_picture` to be able to look up previous picture headers
        //somehow.

        if followers.contains(PlusPTypeFollower::HAS_CUSTOM_FORMAT) {
            format = Some(SourceFormat::Extended(decode_cpfmt(reader)?));
        }

        let picture_clock = if followers.contains(PlusPTypeFollower::HAS_CUSTOM_CLOCK) {
            Some(decode_cpcfc(reader)?)
        } else {
            None
        };

        let temporal_reference = if picture_clock.is_some() {
            let high_tr = reader.read_bits::<u16>(2)? << 8;

            high_tr | low_tr as u16
        } else {
            low_tr as u16
        };

        let motion_vector_range = if followers.contains(PlusPTypeFollower::HAS_MOTION_VECTOR_RANGE)
        {
            Some(decode_uui(reader)?)
        } else {
            None
        };

        let slice_submode = if followers.contains(PlusPTypeFollower::HAS_SLICE_STRUCTURED_SUBMODE) {
            Some(decode_sss(reader)?)
        } else {
            None
        };

        let scalability_layer = if decoder_options.contains(DecoderOption::USE_SCALABILITY_MODE) {
            Some(decode_elnum_rlnum(reader, followers)?)
        } else {
            None
        };

        let reference_picture_selection_mode =
            if followers.contains(PlusPTypeFollower::HAS_REFERENCE_PICTURE_SELECTION_MODE) {
                Some(decode_rpsmf(reader)?)
            } else {
                None
            };

        let prediction_reference = if options.contains(PictureOption::REFERENCE_PICTURE_SELECTION) {
            decode_trpi(reader)?
        } else {
            None
        };

        let backchannel_message = if options.contains(PictureOption::REFERENCE_PICTURE_SELECTION) {
            decode_bcm(reader)?
        } else {
            None
        };

        //TODO: this should be checking against the reference picture to see if we need RPRP
        let reference_picture_resampling = if options
            .contains(PictureOption::REFERENCE_PICTURE_RESAMPLING)
            || previous_picture
                .map(|p| p.format != format)
                .unwrap_or(false)
        {
            decode_rprp(reader)?
        } else {
            None
        };

        let quantizer: u8 = reader.read_bits(5)?;

        if multiplex_bitstream.is_none() {
            multiplex_bitstream = Some(decode_cpm_and_psbi(reader)?);
        }
        let multiplex_bitstream = multiplex_bitstream.unwrap();

        //TODO: This needs to know the picture clock, which has the usual
        //reference picture thing I mentioned before in the last TODO
        let (pb_reference, pb_quantizer) = if matches!(
            picture_type,
            PictureTypeCode::PbFrame | PictureTypeCode::ImprovedPbFrame
        ) {
            (
                Some(decode_trb(reader, picture_clock.is_some())?),
                Some(decode_dbquant(reader)?),
            )
        } else {
            (None, None)
        };

        let extra = decode_pei(reader)?;

        Ok(Some(Picture {
            version: None,
            temporal_reference,
            format,
            options,
            has_plusptype,
            has_opptype,
            picture_type,
            motion_vector_range,
            slice_submode,
            scalability_layer,
            reference_picture_selection_mode,
            prediction_reference,
            backchannel_message,
            reference_picture_resampling,
            quantizer,
            multiplex_bitstream,
            pb_reference,
            pb_quantizer,
            extra,
        }))
    }
}

} // verus!
fn main() {}
