use vstd::prelude::*;
verus! {
fn f(x: isize, hi: isize) -> (r: isize)
    requires 0 <= hi
    ensures r == if x < 0 { 0 } else if x > hi { hi } else { x }
{
    x.clamp(0, hi)
}
fn g(a: usize) -> (r: usize)
    ensures r == if a >= 1 { a - 1 } else { 0 }
{
    a.saturating_sub(1)
}
fn h(a: i16) -> (r: (i16, i16))
    requires -100 <= a <= 100
    ensures r.0 == (if a >= 0 { a as int / 2 } else { -((-(a as int)) / 2) }), r.1 == (a as int) - 2 * (r.0 as int)
{
    (a / 2, a % 2)
}
} // verus!
fn main() {}
