use vstd::prelude::*;
use std::collections::HashMap;
verus! {
broadcast use vstd::std_specs::hash::group_hash_axioms;

pub struct DecodedPicture { pub tr: u16, pub disposable: bool, pub iframe: bool, pub luma: Vec<u8> }

pub struct H263State {
    last_picture: Option<u16>,
    reference_picture: Option<u16>,
    reference_states: HashMap<u16, DecodedPicture>,
}

impl H263State {
    pub closed spec fn view_last(&self) -> Option<DecodedPicture> {
        match self.last_picture { Some(k) => if self.reference_states@.contains_key(k) { Some(self.reference_states@[k]) } else { None }, None => None }
    }
    pub closed spec fn view_ref(&self) -> Option<DecodedPicture> {
        match self.reference_picture { Some(k) => if self.reference_states@.contains_key(k) { Some(self.reference_states@[k]) } else { None }, None => None }
    }

    pub fn get_last_picture(&self) -> (r: Option<&DecodedPicture>)
        ensures r == match self.view_last() { Some(p) => Some(&p), None => None }
    {
        if self.last_picture.is_none() {
            None
        } else {
            self.reference_states.get(&self.last_picture.unwrap())
        }
    }

    pub fn get_reference_picture(&self) -> (r: Option<&DecodedPicture>)
        ensures r == match self.view_ref() { Some(p) => Some(&p), None => None }
    {
        if self.reference_picture.is_none() {
            None
        } else {
            self.reference_states.get(&self.last_picture.unwrap())
        }
    }

    #[verifier::external_body]
    pub fn cleanup_buffers(&mut self)
        ensures final(self).view_last() == old(self).view_last(), final(self).view_ref() == old(self).view_ref(),
    {}

    pub fn tail(&mut self, next_decoded_picture: DecodedPicture)
        ensures
            final(self).view_last() == Some(next_decoded_picture),
            final(self).view_ref() == if next_decoded_picture.disposable { old(self).view_ref() } else { Some(next_decoded_picture) },
    {
        if next_decoded_picture.iframe
        {
            self.reference_picture = None;
        }

        let this_tr = next_decoded_picture.tr;
        self.last_picture = Some(this_tr);
        if !next_decoded_picture.disposable
        {
            self.reference_picture = Some(this_tr);
        }

        self.reference_states.insert(this_tr, next_decoded_picture);
        self.cleanup_buffers();
    }
}
} // verus!
fn main() {}
