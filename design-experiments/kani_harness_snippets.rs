// ===== appended to deblock/src/deblock.rs in the scratch copy =====
#[cfg(kani)]
mod verif_kani {
    use super::*;
    use core::arch::x86_64::*;
    fn sra16_stub(a: __m128i, count: __m128i) -> __m128i {
        let a: [i16; 8] = unsafe { core::mem::transmute(a) };
        let c: [u64; 2] = unsafe { core::mem::transmute(count) };
        let s = if c[0] > 15 { 15 } else { c[0] as u32 };
        let mut r = [0i16; 8];
        let mut i = 0; while i < 8 { r[i] = a[i] >> s; i += 1; }
        unsafe { core::mem::transmute(r) }
    }
    fn max16_stub(a: __m128i, b: __m128i) -> __m128i {
        let a: [i16; 8] = unsafe { core::mem::transmute(a) };
        let b: [i16; 8] = unsafe { core::mem::transmute(b) };
        let mut r = [0i16; 8];
        let mut i = 0; while i < 8 { r[i] = if a[i] > b[i] { a[i] } else { b[i] }; i += 1; }
        unsafe { core::mem::transmute(r) }
    }
    fn min16_stub(a: __m128i, b: __m128i) -> __m128i {
        let a: [i16; 8] = unsafe { core::mem::transmute(a) };
        let b: [i16; 8] = unsafe { core::mem::transmute(b) };
        let mut r = [0i16; 8];
        let mut i = 0; while i < 8 { r[i] = if a[i] < b[i] { a[i] } else { b[i] }; i += 1; }
        unsafe { core::mem::transmute(r) }
    }
    fn spec_process(a: u8, b: u8, c: u8, d: u8, s: u8) -> (u8, u8, u8, u8) {
        let (a, b, c, d, s) = (a as i32, b as i32, c as i32, d as i32, s as i32);
        let dd = (a - 4 * b + 4 * c - d) / 8;
        let ad = dd.abs();
        let ramp = (ad - (2 * (ad - s)).max(0)).max(0);
        let d1 = if dd < 0 { -ramp } else { ramp };
        let lim = (d1 / 2).abs();
        let d2 = ((a - d) / 4).clamp(-lim, lim);
        ((a - d2) as u8, (b + d1).clamp(0, 255) as u8, (c - d1).clamp(0, 255) as u8, (d + d2) as u8)
    }
    #[kani::proof]
    #[kani::unwind(20)]
    #[kani::stub(core::arch::x86_64::_mm_sra_epi16, sra16_stub)]
    #[kani::stub(core::arch::x86_64::_mm_max_epi16, max16_stub)]
    #[kani::stub(core::arch::x86_64::_mm_min_epi16, min16_stub)]
    fn deblock_11x10() {
        const W: usize = 11; const H: usize = 10;
        let buf: [u8; W * H] = kani::any();
        let s: u8 = kani::any();
        kani::assume(s >= 1 && s <= 12);
        let out = deblock(&buf, W, s);
        assert!(out.len() == W * H);
        // untouched sample far from edges
        assert!(out[0] == buf[0]);
        assert!(out[3 + 3 * W] == buf[3 + 3 * W]);
        // horizontal edge at y=8 (rows 6..9), column 0 (simd lane) and column 9 (scalar remainder): before vertical pass col 0 is unaffected by vertical edges
        let (a, b, c, d) = spec_process(buf[6 * W], buf[7 * W], buf[8 * W], buf[9 * W], s);
        assert!(out[6 * W] == a && out[7 * W] == b && out[8 * W] == c && out[9 * W] == d);
    }
    #[kani::proof]
    fn kernel_scalar() {
        let (mut a, mut b, mut c, mut d): (u8, u8, u8, u8) = (kani::any(), kani::any(), kani::any(), kani::any());
        let s: u8 = kani::any();
        kani::assume(s >= 1 && s <= 12);
        let e = spec_process(a, b, c, d, s);
        process(&mut a, &mut b, &mut c, &mut d, s);
        assert!((a, b, c, d) == e);
    }
    #[kani::proof]
    #[kani::unwind(10)]
    #[kani::stub(core::arch::x86_64::_mm_sra_epi16, sra16_stub)]
    #[kani::stub(core::arch::x86_64::_mm_max_epi16, max16_stub)]
    #[kani::stub(core::arch::x86_64::_mm_min_epi16, min16_stub)]
    fn kernel_simd() {
        let mut a: [u8; 8] = kani::any();
        let mut b: [u8; 8] = kani::any();
        let mut c: [u8; 8] = kani::any();
        let mut d: [u8; 8] = kani::any();
        let s: u8 = kani::any();
        kani::assume(s >= 1 && s <= 12);
        let (a0, b0, c0, d0) = (a, b, c, d);
        process_simd(&mut a, &mut b, &mut c, &mut d, s);
        let mut i = 0;
        while i < 8 {
            let e = spec_process(a0[i], b0[i], c0[i], d0[i], s);
            assert!((a[i], b[i], c[i], d[i]) == e);
            i += 1;
        }
    }
    #[kani::proof]
    #[kani::unwind(20)]
    fn deblock_3x1() {
        const W: usize = 3; const H: usize = 1;
        let buf: [u8; W * H] = kani::any();
        let out = deblock(&buf, W, 5);
        assert!(out.len() == W * H);
    }
}

// ===== appended to yuv/src/bt601.rs in the scratch copy =====
#[cfg(kani)]
mod verif_kani {
    use super::*;
    // contract stub in "tagging" form: pixel function abstracted to an injective packing
    fn tag_stub(yuv: (&[u8; 4], &[u8; 2], &[u8; 2]), rgba: &mut [u8; 16]) {
        let (y, cb, cr) = yuv;
        let mut i = 0;
        while i < 4 {
            rgba[4 * i] = y[i];
            rgba[4 * i + 1] = cb[i / 2];
            rgba[4 * i + 2] = cr[i / 2];
            rgba[4 * i + 3] = 255;
            i += 1;
        }
    }
    fn body<const W: usize, const H: usize, const N: usize, const CN: usize>() {
        let y: [u8; N] = kani::any();
        let cb: [u8; CN] = kani::any();
        let cr: [u8; CN] = kani::any();
        let cw = (W + 1) / 2;
        let out = yuv420_to_rgba(&y, &cb, &cr, W);
        assert!(out.len() == N * 4);
        let mut py = 0;
        while py < H {
            let mut px = 0;
            while px < W {
                let o = (px + py * W) * 4;
                assert!(out[o] == y[px + py * W]);
                assert!(out[o + 1] == cb[px / 2 + (py / 2) * cw]);
                assert!(out[o + 2] == cr[px / 2 + (py / 2) * cw]);
                assert!(out[o + 3] == 255);
                px += 1;
            }
            py += 1;
        }
    }
    #[kani::proof]
    #[kani::unwind(12)]
    #[kani::stub(yuv_to_rgba_4x, tag_stub)]
    fn geom_7x3() { body::<7, 3, 21, 8>(); }
    #[kani::proof]
    #[kani::unwind(120)]
    #[kani::stub(yuv_to_rgba_4x, tag_stub)]
    fn geom_18x6() { body::<18, 6, 108, 27>(); }
}

// ===== appended to h263/src/decoder/cpu/rle.rs in the scratch copy =====
#[cfg(kani)]
mod verif_kani {
    use super::*;
    use crate::types::{IntraDc, TCoefficient};
    const ZZ: [(u8, u8); 64] = DEZIGZAG_MAPPING; // experiment only; real oracle is typed from the standard

    fn dq(q: u8, l: i16) -> i32 {
        let q = q as i32; let a = (l as i32).abs();
        let v = q * (2 * a + 1) - if q % 2 == 0 { 1 } else { 0 };
        let v = if l < 0 { -v } else { v };
        v.clamp(-2048, 2047)
    }

    #[kani::proof]
    #[kani::unwind(4)]
    fn rle_single_event() {
        let q: u8 = kani::any(); kani::assume(q >= 1 && q <= 31);
        let level: i16 = kani::any(); kani::assume(level >= -127 && level <= 127 && level != 0);
        let run: u8 = kani::any(); kani::assume(run < 64);
        let blk = Block { intradc: None, tcoef: vec![TCoefficient { is_short: false, run, level }] };
        let mut levels = [DecodedDctBlock::Zero; 1];
        inverse_rle(&blk, &mut levels, (0, 0), 1, q);
        let (x, y) = ZZ[run as usize];
        let want = dq(q, level) as f32;
        match levels[0] {
            DecodedDctBlock::Dc(v) => { assert!(x == 0 && y == 0 && v == want); }
            DecodedDctBlock::Horiz(r) => { assert!(y == 0 && x > 0 && r[x as usize] == want); }
            DecodedDctBlock::Vert(c) => { assert!(x == 0 && y > 0 && c[y as usize] == want); }
            DecodedDctBlock::Full(m) => { assert!(x > 0 && y > 0 && m[y as usize][x as usize] == want); }
            DecodedDctBlock::Zero => { assert!(false); }
        }
    }
}

// ===== appended to h263/src/decoder/cpu/mvd_pred.rs in the scratch copy =====
#[cfg(kani)]
mod verif_kani {
    use super::*;
    fn anymv() -> MotionVector {
        let x: i16 = kani::any(); let y: i16 = kani::any();
        kani::assume(x >= -32 && x < 32 && y >= -32 && y < 32);
        (HalfPel::from_unit(x), HalfPel::from_unit(y)).into()
    }
    fn med(a: i16, b: i16, c: i16) -> i16 { a.max(b).min(a.min(b).max(c)) }
    fn comp(m: MotionVector) -> (HalfPel, HalfPel) { m.into() }

    #[kani::proof]
    #[kani::unwind(8)]
    fn predict_interior_idx0() {
        // 3 columns, current mb = 4 (row 1, col 1)
        let pv: [[MotionVector; 4]; 4] = [[anymv(), anymv(), anymv(), anymv()], [anymv(), anymv(), anymv(), anymv()], [anymv(), anymv(), anymv(), anymv()], [anymv(), anymv(), anymv(), anymv()]];
        let cur = [MotionVector::zero(); 4];
        let r = predict_candidate(&pv, &cur, 3, 0);
        let (a, b, c) = (comp(pv[3][1]), comp(pv[1][2]), comp(pv[2][2]));
        let (rx, ry) = comp(r);
        assert!(rx == a.0.median_of(b.0, c.0));
        assert!(ry == a.1.median_of(b.1, c.1));
    }
}

// ===== appended to h263/src/parser/reader.rs in the scratch copy =====
#[cfg(kani)]
pub mod verif_kani {
    use super::*;
    use crate::traits::BitReadable;

    fn window<R: Read>(this: &H263Reader<R>) -> u128 {
        // buffer is preloaded with exactly 16 bytes
        let mut b = [0u8; 16];
        let mut i = 0;
        while i < 16 { b[i] = this.buffer[i]; i += 1; }
        u128::from_be_bytes(b)
    }

    impl<R: Read> H263Reader<R> {
        /// contract-model of peek_bits over a 128-bit window (no per-bit loop)
        pub fn peek_bits_model<T: BitReadable>(&mut self, bits_needed: u32) -> Result<T> {
            if (T::zero().checked_shl(bits_needed.saturating_sub(1))).is_none() {
                return Err(Error::InternalDecoderError);
            }
            if bits_needed == 0 { return Ok(T::zero()); }
            if self.bits_read + bits_needed as usize > 128 {
                return Err(Error::InvalidBitstream); // stands for EOF in these harnesses; unreachable by construction
            }
            let w = window(self);
            let v = ((w << self.bits_read) >> (128 - bits_needed)) as u32;
            // assemble T from up to 4 bytes
            let b3: T = ((v >> 24) as u8).into();
            let b2: T = ((v >> 16) as u8).into();
            let b1: T = ((v >> 8) as u8).into();
            let b0: T = (v as u8).into();
            let sh = |x: T, n: u32| x.checked_shl(n).unwrap_or(T::zero());
            Ok(sh(b3, 24) | sh(b2, 16) | sh(b1, 8) | b0)
        }
        pub fn skip_bits_model(&mut self, n: u32) -> Result<()> {
            if self.bits_read + n as usize > 128 {
                return Err(Error::InvalidBitstream);
            }
            self.bits_read += n as usize;
            Ok(())
        }
    }
    pub fn preload(bytes: &[u8; 16]) -> H263Reader<&'static [u8]> {
        let mut r = H263Reader::from_source(&[][..]);
        let mut i = 0;
        while i < 16 { r.buffer.push_back(bytes[i]); i += 1; }
        r
    }
    pub fn pos<R: Read>(r: &H263Reader<R>) -> usize { r.bits_read }
}

#[cfg(kani)]
mod verif_kani2 {
    use super::*;
    const NB: usize = 6;
    fn model_bits(all: &[u8], pos: usize, n: u32) -> u64 {
        let mut acc = 0u64;
        let mut k = 0;
        while k < n as usize {
            let p = pos + k;
            let bit = (all[p / 8] >> (7 - (p % 8))) & 1;
            acc = (acc << 1) | bit as u64;
            k += 1;
        }
        acc
    }
    fn one(all: &[u8; NB], total: usize, buffered: usize, pos: usize, n: u32) {
        let mut reader = H263Reader::from_source(&all[buffered..total]);
        for i in 0..buffered {
            reader.buffer.push_back(all[i]);
        }
        reader.bits_read = pos;
        let r = reader.read_bits::<u32>(n);
        if pos + n as usize <= total * 8 {
            match r {
                Ok(v) => { assert!(v as u64 == model_bits(all, pos, n)); }
                Err(e) => { core::mem::forget(e); assert!(false); }
            }
            assert!(reader.bits_read == pos + n as usize);
        } else {
            match r { Ok(_) => { assert!(false); } Err(e) => { core::mem::forget(e); } }
            assert!(reader.bits_read == pos);
        }
    }
    #[kani::proof]
    #[kani::unwind(40)]
    fn reader_read_bits_u32_b2_pos5_symn() {
        let all: [u8; NB] = kani::any();
        let n: u32 = kani::any();
        kani::assume(n <= 32);
        one(&all, 4, 2, 5, n);
    }
    #[kani::proof]
    #[kani::unwind(40)]
    fn reader_read_bits_u32_b2_pos5() {
        let all: [u8; NB] = kani::any();
        let mut n = 0;
        while n <= 32 { one(&all, 4, 2, 5, n); n += 1; }
    }
}

