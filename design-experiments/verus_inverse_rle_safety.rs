use vstd::prelude::*;
verus! {
pub assume_specification [i16::abs] (x: i16) -> (r: i16)
    requires x != i16::MIN,
    ensures r == if x < 0 { -x } else { x as int };
pub assume_specification [i16::signum] (x: i16) -> (r: i16)
    ensures r == if x < 0 { -1int } else if x == 0 { 0 } else { 1 };

#[derive(Copy, Clone, PartialEq, Eq, Debug)]
pub struct IntraDc(u8);

impl IntraDc {
    pub fn into_level(self) -> i16 {
        if self.0 == 0xFF {
            1024
        } else {
            (self.0 as u16 as i16) << 3
        }
    }
}

#[derive(PartialEq, Eq, Debug)]
pub struct TCoefficient {
    pub is_short: bool,
    pub run: u8,
    pub level: i16,
}

#[derive(PartialEq, Eq, Debug)]
pub struct Block {
    pub intradc: Option<IntraDc>,
    pub tcoef: Vec<TCoefficient>,
}

#[derive(Clone, Copy, Debug)]
pub enum DecodedDctBlock {
    Zero,
    Dc(f32),
    Horiz([f32; 8]),
    Vert([f32; 8]),
    Full([[f32; 8]; 8]),
}

const DEZIGZAG_MAPPING: [(u8, u8); 64] = [
    (0, 0), (1, 0), (0, 1), (0, 2), (1, 1), (2, 0), (3, 0), (2, 1),
    (1, 2), (0, 3), (0, 4), (1, 3), (2, 2), (3, 1), (4, 0), (5, 0),
    (4, 1), (3, 2), (2, 3), (1, 4), (0, 5), (0, 6), (1, 5), (2, 4),
    (3, 3), (4, 2), (5, 1), (6, 0), (7, 0), (6, 1), (5, 2), (4, 3),
    (3, 4), (2, 5), (1, 6), (0, 7), (1, 7), (2, 6), (3, 5), (4, 4),
    (5, 3), (6, 2), (7, 1), (7, 2), (6, 3), (5, 4), (4, 5), (3, 6),
    (2, 7), (3, 7), (4, 6), (5, 5), (6, 4), (7, 3), (7, 4), (6, 5),
    (5, 6), (4, 7), (5, 7), (6, 6), (7, 5), (7, 6), (6, 7), (7, 7),
];

pub fn inverse_rle(
    encoded_block: &Block,
    levels: &mut [DecodedDctBlock],
    pos: (usize, usize),
    blk_per_line: usize,
    quant: u8,
)
    requires
        pos.0 / 8 + (pos.1 / 8) * blk_per_line < old(levels).len(),
        (pos.1 / 8) * blk_per_line <= usize::MAX as int,
        1 <= quant <= 31,
        forall|i: int| 0 <= i < encoded_block.tcoef.len() ==> -1024 <= #[trigger] encoded_block.tcoef[i].level <= 1023,
    ensures
        final(levels).len() == old(levels).len(),
{
    let block_id = pos.0 / 8 + (pos.1 / 8 * blk_per_line);
    let block = &mut levels[block_id];

    *block = if encoded_block.tcoef.is_empty() {
        match encoded_block.intradc {
            Some(dc) => {
                let dc_level = dc.into_level();

                if dc_level == 0 {
                    DecodedDctBlock::Zero
                } else {
                    DecodedDctBlock::Dc(dc_level.into())
                }
            }
            None => DecodedDctBlock::Zero, // The block is empty.
        }
    } else {
        let mut block_data = [[0.0f32; 8]; 8];

        let mut is_horiz = true;
        let mut is_vert = true;

        let mut zigzag_index = 0;
        if let Some(dc) = encoded_block.intradc {
            block_data[0][0] = dc.into_level().into();
            zigzag_index += 1;
        }
        for tcoef in it: encoded_block.tcoef.iter()
            invariant
                zigzag_index <= 64 + 0,
                1 <= quant <= 31,
                forall|i: int| 0 <= i < encoded_block.tcoef.len() ==> -1024 <= #[trigger] encoded_block.tcoef[i].level <= 1023,
        {
            zigzag_index += tcoef.run as usize;

            if zigzag_index >= DEZIGZAG_MAPPING.len() {
                return;
            }

            let (zig_x, zig_y) = DEZIGZAG_MAPPING[zigzag_index];
            let dequantized_level = quant as i16 * ((2 * tcoef.level.abs()) + 1);
            let parity = if quant % 2 == 1 { 0 } else { -1 };

            let value = (tcoef.level.signum() * (dequantized_level + parity)).clamp(-2048, 2047);
            let val = value.into();
            block_data[zig_y as usize][zig_x as usize] = val;
            zigzag_index += 1;

            if val != 0.0 {
                if zig_y > 0 {
                    is_horiz = false;
                }
                if zig_x > 0 {
                    is_vert = false;
                }
            }
        }

        match (is_horiz, is_vert) {
            (true, true) => {
                if block_data[0][0] == 0.0 {
                    DecodedDctBlock::Zero
                } else {
                    DecodedDctBlock::Dc(block_data[0][0])
                }
            }
            (true, false) => DecodedDctBlock::Horiz(block_data[0]),
            (false, true) => DecodedDctBlock::Vert([
                block_data[0][0],
                block_data[1][0],
                block_data[2][0],
                block_data[3][0],
                block_data[4][0],
                block_data[5][0],
                block_data[6][0],
                block_data[7][0],
            ]),
            (false, false) => DecodedDctBlock::Full(block_data),
        }
    }
}
} // verus!
fn main() {}
