use vstd::prelude::*;
verus! {
global size_of usize == 8;
pub assume_specification<T: Copy>[Option::<&T>::copied](o: Option<&T>) -> (r: Option<T>)
    ensures r == match o { Some(x) => Some(*x), None => None };
pub assume_specification[u16::div_ceil](a: u16, b: u16) -> (r: u16)
    requires b != 0,
    ensures r as int == (a as int + b as int - 1) / (b as int);

pub open spec fn clampi(x: int, lo: int, hi: int) -> int { if x < lo { lo } else if x > hi { hi } else { x } }
pub open spec fn samp(a: Seq<u8>, w: int, h: int, x: int, y: int) -> int {
    a[clampi(x, 0, w - 1) + clampi(y, 0, h - 1) * w] as int
}
// floor division by 2 and parity, on mathematical integers (Verus `/` and `%` on int are Euclidean: floor for positive divisor)
pub open spec fn floor2(v: int) -> int { v / 2 }
pub open spec fn odd(v: int) -> bool { v % 2 == 1 }

#[derive(Copy, Clone, Debug, PartialEq, Eq, PartialOrd, Ord)]
pub struct HalfPel(i16);
impl HalfPel {
    pub closed spec fn v(self) -> int { self.0 as int }
    pub fn zero() -> (r: Self) ensures r.v() == 0 {
        Self(0)
    }
    #[verifier::external_body]
    pub fn into_lerp_parameters(self) -> (r: (i16, bool))
        requires -8192 <= self.v() <= 8192,
        ensures r.0 as int == floor2(self.v()), r.1 == odd(self.v())
    {
        if self.0 % 2 == 0 {
            (self.0 / 2, false)
        } else if self < HalfPel::zero() {
            (self.0 / 2 - 1, true)
        } else {
            (self.0 / 2, true)
        }
    }
}

fn read_sample(
    pixel_array: &[u8],
    samples_per_row: usize,
    num_rows: usize,
    pos: (isize, isize),
) -> (r: u8)
    requires samples_per_row >= 1, num_rows >= 1, pixel_array.len() == samples_per_row * num_rows, pixel_array.len() <= 0x1_0000_0000,
    ensures r as int == samp(pixel_array@, samples_per_row as int, num_rows as int, pos.0 as int, pos.1 as int)
{
    let (x, y) = pos;
    proof {
        assert(samples_per_row as int * num_rows as int >= samples_per_row as int) by (nonlinear_arith) requires num_rows >= 1, samples_per_row >= 1;
        assert(samples_per_row as int * num_rows as int >= num_rows as int) by (nonlinear_arith) requires num_rows >= 1, samples_per_row >= 1;
    }

    let x = x.clamp(0, samples_per_row.saturating_sub(1) as isize) as usize;
    let y = y.clamp(0, num_rows.saturating_sub(1) as isize) as usize;
    proof {
        assert(x + y * samples_per_row < samples_per_row * num_rows) by (nonlinear_arith)
            requires x <= samples_per_row - 1, y <= num_rows - 1, samples_per_row >= 1, num_rows >= 1;
        assert(y * samples_per_row <= samples_per_row * num_rows) by (nonlinear_arith)
            requires y <= num_rows - 1, samples_per_row >= 1, num_rows >= 1;
    }

    pixel_array
        .get(x + (y * samples_per_row))
        .copied()
        .expect("pixel array index out of bounds")
}

fn lerp(sample_a: u8, sample_b: u8, middle: bool) -> (r: u8)
    ensures r as int == if middle { (sample_a as int + sample_b as int + 1) / 2 } else { sample_a as int }
{
    if middle {
        (sample_a as u16 + sample_b as u16).div_ceil(2) as u8
    } else {
        sample_a
    }
}

#[derive(Copy, Clone, Debug)]
pub struct MotionVector(HalfPel, HalfPel);
impl MotionVector {
    pub closed spec fn vx(self) -> int { self.0.v() }
    pub closed spec fn vy(self) -> int { self.1.v() }
    pub fn into_lerp_parameters(self) -> (r: ((i16, bool), (i16, bool)))
        requires -8192 <= self.vx() <= 8192, -8192 <= self.vy() <= 8192,
        ensures r.0.0 as int == floor2(self.vx()), r.0.1 == odd(self.vx()), r.1.0 as int == floor2(self.vy()), r.1.1 == odd(self.vy())
    {
        (self.0.into_lerp_parameters(), self.1.into_lerp_parameters())
    }
}

pub open spec fn bilin(a: Seq<u8>, w: int, h: int, x: int, y: int, mx: int, my: int) -> int {
    let x0 = x + floor2(mx); let y0 = y + floor2(my);
    let hx = odd(mx); let hy = odd(my);
    let A = samp(a, w, h, x0, y0); let B = samp(a, w, h, x0 + 1, y0); let C = samp(a, w, h, x0, y0 + 1); let D = samp(a, w, h, x0 + 1, y0 + 1);
    if !hx && !hy { A } else if hx && !hy { (A + B + 1) / 2 } else if !hx && hy { (A + C + 1) / 2 } else { (A + B + C + D + 2) / 4 }
}

pub open spec fn idx(px: int, py: int, i: int, j: int, w: int) -> int { px + i + (py + j) * w }
pub open spec fn cell_done(t: Seq<u8>, a: Seq<u8>, w: int, h: int, px: int, py: int, i: int, j: int, mx: int, my: int) -> bool {
    t[idx(px, py, i, j, w)] as int == bilin(a, w, h, px + i, py + j, mx, my)
}
proof fn lemma_idx(px: int, py: int, i1: int, j1: int, i2: int, j2: int, w: int)
    requires w >= 1, 0 <= px + i1 < w, 0 <= px + i2 < w, idx(px, py, i1, j1, w) == idx(px, py, i2, j2, w),
    ensures i1 == i2, j1 == j2,
{
    assert((py + j1) * w - (py + j2) * w == (j1 - j2) * w) by (nonlinear_arith);
    assert((j1 - j2) * w == i2 - i1);
    if j1 > j2 {
        assert((j1 - j2) * w >= w) by (nonlinear_arith) requires j1 - j2 >= 1, w >= 1;
    } else if j1 < j2 {
        assert((j1 - j2) * w <= -w) by (nonlinear_arith) requires j1 - j2 <= -1, w >= 1;
    }
}
proof fn lemma_idx_bound(px: int, py: int, i: int, j: int, w: int, h: int)
    requires w >= 1, h >= 1, 0 <= px + i < w, 0 <= py + j < h,
    ensures 0 <= idx(px, py, i, j, w) < w * h, (py + j) * w <= w * h, (py + j) * w >= 0
{
    assert(0 <= px + i + (py + j) * w < w * h && (py + j) * w <= w * h && (py + j) * w >= 0) by (nonlinear_arith)
        requires w >= 1, h >= 1, 0 <= px + i < w, 0 <= py + j < h;
}
fn gather_block(
    pixel_array: &[u8],
    samples_per_row: usize,
    pos: (usize, usize),
    mv: MotionVector,
    target: &mut [u8],
)
    requires
        samples_per_row >= 1,
        pixel_array.len() >= 1,
        pixel_array.len() == samples_per_row * (pixel_array.len() / samples_per_row),
        pixel_array.len() <= 0x1_0000_0000,
        old(target).len() == pixel_array.len(),
        pos.0 <= 0x1_0000_0000, pos.1 <= 0x1_0000_0000,
        -8192 <= mv.vx() <= 8192, -8192 <= mv.vy() <= 8192,
    ensures
        final(target).len() == old(target).len(),
        forall|i: int, j: int| 0 <= i < 8 && 0 <= j < 8 && pos.0 + i < samples_per_row && pos.1 + j < pixel_array.len() / samples_per_row
            ==> #[trigger] cell_done(final(target)@, pixel_array@, samples_per_row as int, (pixel_array.len() / samples_per_row) as int, pos.0 as int, pos.1 as int, i, j, mv.vx(), mv.vy()),
{
    let ((x_delta, x_interp), (y_delta, y_interp)) = mv.into_lerp_parameters();

    let src_x = pos.0 as isize + x_delta as isize;
    let src_y = pos.1 as isize + y_delta as isize;
    let array_height = pixel_array.len() / samples_per_row;
    let ghost w = samples_per_row as int;
    let ghost h = array_height as int;
    let ghost px = pos.0 as int;
    let ghost py = pos.1 as int;
    let ghost mx = mv.vx();
    let ghost my = mv.vy();
    proof {
        assert(h >= 1 && w <= 0x1_0000_0000 && h <= 0x1_0000_0000) by (nonlinear_arith)
            requires w >= 1, w * h >= 1, w * h <= 0x1_0000_0000, h >= 0;
    }

    let block_cols = (samples_per_row as isize - pos.0 as isize).clamp(0, 8);
    let block_rows = (array_height as isize - pos.1 as isize).clamp(0, 8);

    if !x_interp && !y_interp {
        if block_cols == 8
            && block_rows == 8
            && (0..=samples_per_row as isize - 8).contains(&src_x)
            && (0..=array_height as isize - 8).contains(&src_y)
        {
            assume(false); // fast path: not attempted in this prototype
            for j in 0..8 {
                let src_offset = src_x as usize + ((src_y + j as isize) as usize * samples_per_row);
                let dest_offset = pos.0 + (pos.1 + j) * samples_per_row;
                target[dest_offset..dest_offset + 8]
                    .copy_from_slice(&pixel_array[src_offset..src_offset + 8]);
            }
        } else {
            { let mut j: usize = 0; for v in src_y..src_y + block_rows
                invariant
                    j as int == v - src_y, 0 <= j <= block_rows, 0 <= block_rows <= 8, 0 <= block_cols <= 8,
                    block_cols == 0 || block_cols as int <= w - px, block_rows == 0 || block_rows as int <= h - py,
                    w == samples_per_row as int, h == array_height as int, px == pos.0 as int, py == pos.1 as int,
                    w >= 1, h >= 1, w * h == pixel_array.len(), pixel_array.len() <= 0x1_0000_0000, px <= 0x1_0000_0000, py <= 0x1_0000_0000,
                    target.len() == pixel_array.len(),
                    src_x as int == px + floor2(mx), src_y as int == py + floor2(my), !odd(mx), !odd(my),
                    -8192 <= mx <= 8192, -8192 <= my <= 8192,
                    forall|i2: int, j2: int| 0 <= j2 < j && 0 <= i2 < block_cols ==> #[trigger] cell_done(target@, pixel_array@, w, h, px, py, i2, j2, mx, my),
            {
                { let mut i: usize = 0; for u in src_x..src_x + block_cols
                    invariant
                        i as int == u - src_x, 0 <= i <= block_cols, 0 <= block_rows <= 8, 0 <= block_cols <= 8, 0 <= j < block_rows,
                        j as int == v - src_y,
                        block_cols == 0 || block_cols as int <= w - px, block_rows == 0 || block_rows as int <= h - py,
                        w == samples_per_row as int, h == array_height as int, px == pos.0 as int, py == pos.1 as int,
                        w >= 1, h >= 1, w * h == pixel_array.len(), pixel_array.len() <= 0x1_0000_0000, px <= 0x1_0000_0000, py <= 0x1_0000_0000,
                        target.len() == pixel_array.len(),
                        src_x as int == px + floor2(mx), src_y as int == py + floor2(my), !odd(mx), !odd(my),
                        -8192 <= mx <= 8192, -8192 <= my <= 8192,
                        forall|i2: int, j2: int| 0 <= j2 < j && 0 <= i2 < block_cols ==> #[trigger] cell_done(target@, pixel_array@, w, h, px, py, i2, j2, mx, my),
                        forall|i2: int| 0 <= i2 < i ==> #[trigger] cell_done(target@, pixel_array@, w, h, px, py, i2, j as int, mx, my),
                {
                    proof { lemma_idx_bound(px, py, i as int, j as int, w, h); }
                    let ghost before = target@;
                    target[pos.0 + i + ((pos.1 + j) * samples_per_row)] =
                        read_sample(pixel_array, samples_per_row, array_height, (u, v));
                    proof {
                        assert forall|i2: int, j2: int| 0 <= j2 < j && 0 <= i2 < block_cols implies #[trigger] cell_done(target@, pixel_array@, w, h, px, py, i2, j2, mx, my) by {
                            assert(cell_done(before, pixel_array@, w, h, px, py, i2, j2, mx, my));
                            if idx(px, py, i2, j2, w) == idx(px, py, i as int, j as int, w) { lemma_idx(px, py, i2, j2, i as int, j as int, w); }
                        }
                        assert forall|i2: int| 0 <= i2 < i + 1 implies #[trigger] cell_done(target@, pixel_array@, w, h, px, py, i2, j as int, mx, my) by {
                            if i2 < i {
                                assert(cell_done(before, pixel_array@, w, h, px, py, i2, j as int, mx, my));
                                if idx(px, py, i2, j as int, w) == idx(px, py, i as int, j as int, w) { lemma_idx(px, py, i2, j as int, i as int, j as int, w); }
                            }
                        }
                    }
                 i += 1; } }
             j += 1; } }
        }
    } else {
        assume(false); // interpolating path: same invariants, not repeated in this prototype
        { let mut j: usize = 0; for v in src_y..src_y + block_rows {
            { let mut i: usize = 0; for u in src_x..src_x + block_cols {
                let sample_0_0 = read_sample(pixel_array, samples_per_row, array_height, (u, v));
                target[pos.0 + i + ((pos.1 + j) * samples_per_row)] = sample_0_0;
             i += 1; } }
         j += 1; } }
    }
}
} // verus!
fn main() {}
