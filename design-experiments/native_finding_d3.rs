use h263_rs::{DecoderOption, H263State};
use h263_rs::parser::H263Reader;
struct Bw { buf: Vec<u8>, pos: usize }
impl Bw {
    fn new() -> Self { Bw { buf: vec![], pos: 0 } }
    fn put(&mut self, val: u32, n: usize) {
        for k in 0..n {
            if self.pos / 8 >= self.buf.len() { self.buf.push(0); }
            let bit = ((val >> (n - 1 - k)) & 1) as u8;
            self.buf[self.pos / 8] |= bit << (7 - (self.pos % 8));
            self.pos += 1;
        }
    }
}
#[test]
fn d3() {
    for (lvl, q) in [(528i32, 31u32), (529, 31), (1023, 31), (-1023, 17)] {
        let mut bw = Bw::new();
        bw.put(1, 17); bw.put(1, 5); bw.put(0, 8); bw.put(0, 3); bw.put(16, 8); bw.put(16, 8);
        bw.put(0, 2); bw.put(0, 1); bw.put(q, 5); bw.put(0, 1);
        bw.put(1, 1);            // MCBPC intra, cbpc 00
        bw.put(0b00010, 5);      // CBPY intra: luma0 coded
        bw.put(100, 8);          // INTRADC block 0
        bw.put(0b0000011, 7);    // ESCAPE
        bw.put(1, 1);            // 11-bit form
        bw.put(1, 1);            // last
        bw.put(0, 6);            // run 0
        bw.put((lvl as u32) & 0x7FF, 11);
        for _ in 0..5 { bw.put(100, 8); }
        while bw.pos % 8 != 0 { bw.put(0, 1); }
        let mut st = H263State::new(DecoderOption::SORENSON_SPARK_BITSTREAM);
        let mut rd = H263Reader::from_source(&bw.buf[..]);
        let r = std::panic::catch_unwind(std::panic::AssertUnwindSafe(|| st.decode_next_picture(&mut rd)));
        let s = match r { Err(_) => "PANIC".to_string(), Ok(Ok(())) => "ok".into(), Ok(Err(e)) => format!("err({:?})", e) };
        println!("D3 level={} q={} -> {}", lvl, q, s);
    }
}
