use vstd::prelude::*;
verus! {
pub enum Error { InvalidPType, Eof }
pub type Result<T> = std::result::Result<T, Error>;

#[verifier::external_body]
#[verifier::reject_recursive_types(R)]
pub struct H263Reader<R> { r: R }

pub uninterp spec fn rbits<R>(r: &H263Reader<R>) -> Seq<bool>;
pub uninterp spec fn rpos<R>(r: &H263Reader<R>) -> nat;

/// MSB-first value of n bits starting at p
pub open spec fn nat_of(b: Seq<bool>, p: nat, n: nat) -> nat
    decreases n
{
    if n == 0 { 0 } else { 2 * nat_of(b, p, (n - 1) as nat) + (if b[(p + n - 1) as int] { 1nat } else { 0nat }) }
}

pub trait BitReadable: Sized { spec fn as_nat(self) -> nat; }
impl BitReadable for u8 { open spec fn as_nat(self) -> nat { self as nat } }

impl<R> H263Reader<R> {
    #[verifier::external_body]
    pub fn read_bits<T: BitReadable>(&mut self, n: u32) -> (r: Result<T>)
        ensures
            rbits(final(self)) == rbits(old(self)),
            match r {
                Ok(v) => rpos(old(self)) + n <= rbits(old(self)).len() && v.as_nat() == nat_of(rbits(old(self)), rpos(old(self)), n as nat)
                          && rpos(final(self)) == rpos(old(self)) + n,
                Err(_) => rpos(final(self)) == rpos(old(self)) && rpos(old(self)) + n > rbits(old(self)).len(),
            }
    { unimplemented!() }
    #[verifier::external_body]
    pub fn read_u8(&mut self) -> (r: Result<u8>)
        ensures
            rbits(final(self)) == rbits(old(self)),
            match r {
                Ok(v) => rpos(old(self)) + 8 <= rbits(old(self)).len() && v as nat == nat_of(rbits(old(self)), rpos(old(self)), 8)
                          && rpos(final(self)) == rpos(old(self)) + 8,
                Err(_) => rpos(final(self)) == rpos(old(self)) && rpos(old(self)) + 8 > rbits(old(self)).len(),
            }
    { unimplemented!() }
}

#[derive(Copy, Clone)]
pub struct PictureOption { pub bits: u32 }
impl PictureOption {
    pub const USE_SPLIT_SCREEN: PictureOption = PictureOption { bits: 0b1 };
    pub const USE_DOCUMENT_CAMERA: PictureOption = PictureOption { bits: 0b10 };
    pub const RELEASE_FULL_PICTURE_FREEZE: PictureOption = PictureOption { bits: 0b100 };
    pub const UNRESTRICTED_MOTION_VECTORS: PictureOption = PictureOption { bits: 0b1000 };
    pub const SYNTAX_BASED_ARITHMETIC_CODING: PictureOption = PictureOption { bits: 0b10000 };
    pub const ADVANCED_PREDICTION: PictureOption = PictureOption { bits: 0b100000 };
    pub fn empty() -> (r: Self) ensures r.bits == 0 { PictureOption { bits: 0 } }
}
impl core::ops::BitOrAssign for PictureOption { fn bitor_assign(&mut self, r: Self) { self.bits = self.bits | r.bits; } }

#[derive(Copy, Clone, PartialEq)]
pub enum SourceFormat { SubQcif, QuarterCif, FullCif, FourCif, SixteenCif, Reserved }
#[derive(Copy, Clone)]
pub enum PictureTypeCode { IFrame, PFrame, PbFrame }
pub type PType = (PictureOption, Option<(SourceFormat, PictureTypeCode)>);

// ---- spec from H.263 5.1.3: PTYPE bits 1..13 (bit 1 = MSB of the first octet)
pub open spec fn spec_fmt(code: nat) -> SourceFormat {
    if code == 1 { SourceFormat::SubQcif } else if code == 2 { SourceFormat::QuarterCif } else if code == 3 { SourceFormat::FullCif }
    else if code == 4 { SourceFormat::FourCif } else if code == 5 { SourceFormat::SixteenCif } else { SourceFormat::Reserved }
}
pub open spec fn bit(v: nat, k: nat) -> bool { (v / pow2(k)) % 2 == 1 }
pub open spec fn pow2(k: nat) -> nat decreases k { if k == 0 { 1 } else { 2 * pow2((k - 1) as nat) } }

proof fn lemma_div_bits_u8(x: u8)
    ensures
        (x & 0xC0 != 0x80) == (x as nat / 64 != 2),
        (x & 0x20 != 0) == bit(x as nat, 5),
        (x & 0x10 != 0) == bit(x as nat, 4),
        (x & 0x08 != 0) == bit(x as nat, 3),
        (x & 0x04 != 0) == bit(x as nat, 2),
        (x & 0x02 != 0) == bit(x as nat, 1),
        (x & 0x01 != 0) == bit(x as nat, 0),
        (x & 0x07) as nat == x as nat % 8,
{
    reveal_with_fuel(pow2, 8);
    assert((x & 0xC0 != 0x80) == (x / 64 != 2)) by (bit_vector);
    assert((x & 0x20 != 0) == ((x / 32) % 2 == 1)) by (bit_vector);
    assert((x & 0x10 != 0) == ((x / 16) % 2 == 1)) by (bit_vector);
    assert((x & 0x08 != 0) == ((x / 8) % 2 == 1)) by (bit_vector);
    assert((x & 0x04 != 0) == ((x / 4) % 2 == 1)) by (bit_vector);
    assert((x & 0x02 != 0) == ((x / 2) % 2 == 1)) by (bit_vector);
    assert((x & 0x01 != 0) == ((x / 1) % 2 == 1)) by (bit_vector);
    assert((x & 0x07) == x % 8) by (bit_vector);
}
proof fn lemma_or_flag(a: u32, f: u32, g: u32)
    requires f == 1 || f == 2 || f == 4 || f == 8 || f == 16 || f == 32, g == 1 || g == 2 || g == 4 || g == 8 || g == 16 || g == 32,
    ensures ((a | f) & g == g) == (if f == g { true } else { a & g == g }), (0u32 & g == g) == false
{
    assert(f == 1 || f == 2 || f == 4 || f == 8 || f == 16 || f == 32 ==> (g == 1 || g == 2 || g == 4 || g == 8 || g == 16 || g == 32 ==> (((a | f) & g == g) == (if f == g { true } else { a & g == g })))) by (bit_vector);
    assert(g == 1 || g == 2 || g == 4 || g == 8 || g == 16 || g == 32 ==> (0u32 & g == g) == false) by (bit_vector);
}

fn decode_ptype_body<R>(reader: &mut H263Reader<R>) -> (res: Result<PType>)
    ensures
        match res {
            Ok((opts, ft)) => {
                let hi = nat_of(rbits(old(reader)), rpos(old(reader)), 8);
                &&& hi / 64 == 2     // bits 1-2 are '10'
                &&& hi % 8 != 0
                &&& (opts.bits & 1 == 1) == bit(hi, 5)   // split screen = bit 3
                &&& (opts.bits & 2 == 2) == bit(hi, 4)
                &&& (opts.bits & 4 == 4) == bit(hi, 3)
                &&& match ft {
                    None => hi % 8 == 7 && rpos(final(reader)) == rpos(old(reader)) + 8,
                    Some((f, t)) => {
                        let lo = nat_of(rbits(old(reader)), rpos(old(reader)) + 8, 5);
                        &&& hi % 8 != 7 && f == spec_fmt(hi % 8)
                        &&& rpos(final(reader)) == rpos(old(reader)) + 13
                        &&& (opts.bits & 8 == 8) == bit(lo, 3)
                        &&& (t is PbFrame) == bit(lo, 0)
                        &&& (t is IFrame) == (bit(lo, 4) && !bit(lo, 0))
                    }
                }
            },
            Err(_) => true,
        }
{
        let mut options = PictureOption::empty();

        let high_ptype_bits = reader.read_u8()?;
        proof { lemma_div_bits_u8(high_ptype_bits); lemma_or_flag(0, 1, 1); }
        if high_ptype_bits & 0xC0 != 0x80 {
            return Err(Error::InvalidPType);
        }

        if high_ptype_bits & 0x20 != 0 {
            options |= PictureOption::USE_SPLIT_SCREEN;
        }

        if high_ptype_bits & 0x10 != 0 {
            options |= PictureOption::USE_DOCUMENT_CAMERA;
        }

        if high_ptype_bits & 0x08 != 0 {
            options |= PictureOption::RELEASE_FULL_PICTURE_FREEZE;
        }

        let source_format = match high_ptype_bits & 0x07 {
            0 => return Err(Error::InvalidPType),
            1 => SourceFormat::SubQcif,
            2 => SourceFormat::QuarterCif,
            3 => SourceFormat::FullCif,
            4 => SourceFormat::FourCif,
            5 => SourceFormat::SixteenCif,
            6 => SourceFormat::Reserved,
            _ => return Ok((options, None)),
        };

        let low_ptype_bits: u8 = reader.read_bits(5)?;
        proof { lemma_div_bits_u8(low_ptype_bits); }
        let mut r#type = if low_ptype_bits & 0x10 != 0 {
            PictureTypeCode::IFrame
        } else {
            PictureTypeCode::PFrame
        };

        if low_ptype_bits & 0x08 != 0 {
            options |= PictureOption::UNRESTRICTED_MOTION_VECTORS;
        }

        if low_ptype_bits & 0x04 != 0 {
            options |= PictureOption::SYNTAX_BASED_ARITHMETIC_CODING;
        }

        if low_ptype_bits & 0x02 != 0 {
            options |= PictureOption::ADVANCED_PREDICTION;
        }

        if low_ptype_bits & 0x01 != 0 {
            r#type = PictureTypeCode::PbFrame;
        }

        Ok((options, Some((source_format, r#type))))
}
} // verus!
fn main() {}
